// Which parts of a variable may a statement change?  C01: "the addressed slot of the named variable
// changes, nothing else does".  For a statement that completes, the reference model says exactly
// what the slot holds afterwards.  For a statement that FAILS, no property says what the slots it
// addresses hold afterwards (untouched, partly updated, dropped to null by an operator-assignment
// that then failed, ...), only that nothing outside them moves.  This module decides "nothing
// outside the addressed slots moved" for such statements, from the statement's own left-hand sides.

use crate::ir::*;
use crate::val::*;
use num::bigint::BigInt;
use num::ToPrimitive;

#[derive(Clone, Debug)]
pub enum Step {
    /// a concrete index or key (only literal index expressions are resolved)
    At(V),
    /// some child or children (slices, computed indices, struct fields)
    Any,
}

fn literal_index(e: &Ex) -> Option<V> {
    match e {
        Ex::Num(NumLit::Int(i)) => Some(V::Int(BigInt::from(*i))),
        Ex::Str(s) => Some(V::Str(s.clone())),
        Ex::Null => Some(V::Null),
        _ => None,
    }
}

fn steps(ixs: &[Ix]) -> Vec<Step> {
    ixs.iter()
        .map(|ix| match ix {
            Ix::Index(e) => match literal_index(e) {
                Some(v) => Step::At(v),
                None => Step::Any,
            },
            Ix::Slice(..) => Step::Any,
        })
        .collect()
}

fn targets(l: &Lv, out: &mut Vec<(String, Vec<Step>)>) {
    match l {
        Lv::Underscore | Lv::Lit(_) => {}
        Lv::Ident(n, ixs) => out.push((n.clone(), steps(ixs))),
        Lv::Annot(inner, _) | Lv::Default(inner, _) | Lv::Splat(inner) => targets(inner, out),
        Lv::Seq(xs, _) => xs.iter().for_each(|x| targets(x, out)),
        Lv::Or(a, b) | Lv::And(a, b) => {
            targets(a, out);
            targets(b, out);
        }
        Lv::Destructure(_, args) | Lv::Cmp(args, _) => args.iter().for_each(|x| targets(x, out)),
    }
}

/// (variable, path of the addressed slot) for every write target of the statement's top-level form.
/// A variable the statement may write in some other way (through a closure it calls, inside a
/// nested expression) does not appear: the caller treats it as addressed as a whole.
pub fn regions(e: &Ex) -> Vec<(String, Vec<Step>)> {
    let mut out = Vec::new();
    match e {
        Ex::Assign(_, l, _) | Ex::OpAssign(_, l, _, _) => targets(l, &mut out),
        Ex::Pop(l) | Ex::Consume(l) => targets(l, &mut out),
        Ex::Remove(l) => {
            // removing an element changes its container
            targets(l, &mut out);
            for (_, p) in out.iter_mut() {
                p.pop();
            }
        }
        Ex::Swap(a, b) => {
            targets(a, &mut out);
            targets(b, &mut out);
        }
        _ => {}
    }
    out
}

fn canon(v: &V) -> String {
    let mut s = String::new();
    canon_with(v, &[], &mut s, &mut |st, o| o.push_str(&format!("{:?}", st)));
    s
}

enum Shape {
    Seq(&'static str, Vec<V>),
    Map(Dict),
    Inst(usize, Vec<V>),
    Other,
}

fn shape(v: &V) -> Shape {
    match v {
        // writing into a finite stream turns it into a list: one family
        V::List(xs) => Shape::Seq("list", xs.clone()),
        V::Stream(StreamV::Fin(xs)) => Shape::Seq("list", xs.clone()),
        V::Vector(xs) => Shape::Seq("vector", xs.clone()),
        V::Bytes(b) => Shape::Seq("bytes", b.iter().map(|x| vint(*x as i64)).collect()),
        V::Str(s) => Shape::Seq("str", s.chars().map(|c| V::Str(c.to_string())).collect()),
        V::Dict(d) => Shape::Map(d.clone()),
        V::Inst(s, xs) => Shape::Inst(*s, xs.clone()),
        _ => Shape::Other,
    }
}

fn position(step: &Step, len: usize) -> Option<Option<usize>> {
    // Some(None): every position; Some(Some(j)): position j; None: addresses nothing here
    match step {
        Step::Any => Some(None),
        Step::At(V::Int(i)) => {
            let i = i.to_i64()?;
            let j = if i < 0 { i + len as i64 } else { i };
            if j >= 0 && (j as usize) < len {
                Some(Some(j as usize))
            } else {
                None
            }
        }
        Step::At(_) => None,
    }
}

/// may `new` be what is left of `old` when only the slots at `paths` (and what is below them) were
/// touched?
pub fn allowed(old: &V, new: &V, paths: &[Vec<Step>]) -> bool {
    if paths.iter().any(|p| p.is_empty()) {
        return true;
    }
    if canon(old) == canon(new) {
        return true;
    }
    match (shape(old), shape(new)) {
        (Shape::Seq(ka, xs), Shape::Seq(kb, ys)) => {
            if ka != kb || xs.len() != ys.len() {
                return false;
            }
            for j in 0..xs.len() {
                let sub: Vec<Vec<Step>> = paths
                    .iter()
                    .filter(|p| match position(&p[0], xs.len()) {
                        Some(None) => true,
                        Some(Some(k)) => k == j,
                        None => false,
                    })
                    .map(|p| p[1..].to_vec())
                    .collect();
                if sub.is_empty() {
                    if canon(&xs[j]) != canon(&ys[j]) {
                        return false;
                    }
                } else if !allowed(&xs[j], &ys[j], &sub) {
                    return false;
                }
            }
            true
        }
        (Shape::Map(a), Shape::Map(b)) => {
            let da = a.default.as_ref().map(|d| canon(d));
            let db = b.default.as_ref().map(|d| canon(d));
            if da != db {
                return false;
            }
            let mut keys: Vec<V> = a.entries.iter().map(|(k, _)| k.clone()).collect();
            for (k, _) in b.entries.iter() {
                if !keys.iter().any(|k2| key_eq(k2, k)) {
                    keys.push(k.clone());
                }
            }
            for k in keys {
                let sub: Vec<Vec<Step>> = paths
                    .iter()
                    .filter(|p| match &p[0] {
                        Step::Any => true,
                        Step::At(k2) => key_eq(k2, &k),
                    })
                    .map(|p| p[1..].to_vec())
                    .collect();
                match (a.get(&k), b.get(&k)) {
                    (Some(x), Some(y)) => {
                        if sub.is_empty() {
                            if canon(x) != canon(y) {
                                return false;
                            }
                        } else if !allowed(x, y, &sub) {
                            return false;
                        }
                    }
                    // an entry appeared or disappeared: only at an addressed key
                    _ => {
                        if sub.is_empty() {
                            return false;
                        }
                    }
                }
            }
            true
        }
        (Shape::Inst(s, xs), Shape::Inst(t, ys)) => {
            if s != t || xs.len() != ys.len() {
                return false;
            }
            // fields are addressed by name: any field may be the addressed one
            let sub: Vec<Vec<Step>> = paths.iter().map(|p| p[1..].to_vec()).collect();
            xs.iter().zip(ys.iter()).all(|(x, y)| allowed(x, y, &sub))
        }
        _ => false,
    }
}
