// Profile `dict` (C09): histories of dictionary operations over a key pool built to collide
// semantically (numerically equal values of different levels and representations, also nested),
// swept over hasher configurations (per-instance / shared seeds, constant and two-bit key hashes).

use crate::gen_common::*;
use crate::ir::*;
use crate::rng::Rng;
use crate::run::{RunCfg, Script};
use crate::val::*;

pub struct DictOut {
    pub script: Script,
    pub kinds: Vec<String>,
    pub nontrivial: bool,
}

fn fl(x: f64) -> Ex {
    Ex::Num(NumLit::Float(x.to_bits()))
}

/// keys; the first group are all `==` 1, the second all `==` 1/2, ...
pub fn key_pool() -> Vec<Ex> {
    vec![
        int(1),
        fl(1.0),
        Ex::Num(NumLit::Rat(2, 2)),
        Ex::Num(NumLit::Cx(1, 0)),
        Ex::Num(NumLit::Rat(1, 2)),
        fl(0.5),
        int(0),
        fl(0.0),
        fl(-0.0),
        Ex::Num(NumLit::Rat(0, 3)),
        Ex::Num(NumLit::Pow2(64)),
        fl(18446744073709551616.0),
        Ex::Num(NumLit::Pow2(63)),
        fl(9223372036854775808.0),
        fl(f64::NAN),
        int(2),
        fl(2.0),
        int(-1),
        fl(-1.0),
        Ex::Num(NumLit::Rat(-3, 3)),
        Ex::Str("a".into()),
        Ex::Str("1".into()),
        Ex::Null,
        // nested
        Ex::List(vec![int(1), int(2)]),
        Ex::List(vec![fl(1.0), Ex::Num(NumLit::Rat(4, 2))]),
        Ex::List(vec![Ex::Num(NumLit::Rat(1, 2))]),
        Ex::List(vec![fl(0.5)]),
        call("V", vec![int(1), int(2)]),
        call("V", vec![fl(1.0), fl(2.0)]),
        Ex::Dict(None, vec![(int(1), Some(int(2))), (int(3), Some(int(4)))]),
        Ex::Dict(None, vec![(fl(3.0), Some(int(4))), (fl(1.0), Some(fl(2.0)))]),
        Ex::List(vec![]),
        // NaN inside containers: as a key it equals itself there too
        call("V", vec![fl(f64::NAN), int(1)]),
        Ex::List(vec![fl(f64::NAN)]),
        Ex::Dict(None, vec![(int(2), Some(call("V", vec![fl(f64::NAN)])))]),
        // 2^62 three ways: by exponentiation (big-backed), as a literal (small) and as a float
        Ex::Num(NumLit::Pow2(62)),
        Ex::Num(NumLit::Big("4611686018427387904".into())),
        fl(4611686018427387904.0),
        // -2^63 by exponentiation and by small-integer arithmetic
        bin(int(0), "-", Ex::Num(NumLit::Pow2(63))),
        bin(bin(int(0), "-", Ex::Num(NumLit::Big("9223372036854775807".into()))), "-", int(1)),
    ]
}

pub fn generate(seed: u64, fault_free: bool) -> DictOut {
    let mut pre = Rng::new(seed ^ 0xd1c7);
    let cfg = RunCfg {
        hash_seed: pre.next(),
        hash_shared: pre.chance(1, 4),
        // fault-free sub-batch: a real hasher; the other sub-batch degrades the key hash (F8)
        key_hash_mode: if fault_free { 0 } else { *pre.pick(&[1u8, 2, 1, 2, 0]) },
        ..RunCfg::default()
    };
    let mut g = Gen::new(seed, cfg);
    let pool = key_pool();
    // a run works with a small subset so that collisions between equal spellings are frequent
    let n_keys = 3 + g.rng.below(5);
    let mut keys: Vec<Ex> = Vec::new();
    let group_starts = [0usize, 4, 6, 10, 12, 15, 17, 23, 25, 27, 29, 32, 33, 34, 35, 35, 38];
    for _ in 0..n_keys {
        if g.rng.chance(2, 3) {
            // pick inside one equality group
            let gs = *g.rng.pick(&group_starts);
            let k = (gs + g.rng.below(3)).min(pool.len() - 1);
            keys.push(pool[k].clone());
        } else {
            keys.push(g.rng.pick(&pool).clone());
        }
    }
    let n_ops = 8 + g.rng.below(18);
    let mut dicts: Vec<String> = Vec::new();
    let mut lists: Vec<String> = Vec::new();
    let mut memo: Option<String> = None;
    let mut nontrivial = false;

    macro_rules! key {
        () => {
            g.rng.pick(&keys).clone()
        };
    }

    // initial dictionaries
    for _ in 0..(1 + g.rng.below(2)) {
        let name = g.fresh("d");
        let n = g.rng.below(4);
        let def = if g.rng.chance(1, 3) { Some(Box::new(int(0))) } else { None };
        let kvs: Vec<(Ex, Option<Ex>)> = (0..n)
            .map(|_| {
                let k = key!();
                let v = int(g.rng.range(0, 9));
                (k, Some(v))
            })
            .collect();
        if g.push("dict-literal", declare(&name, Ex::Dict(def, kvs)), vec![]).is_err() {
            return finish(g, nontrivial);
        }
        dicts.push(name);
    }

    // most sessions start with a list of keys for the de-duplicating and grouping functions
    if g.rng.chance(2, 3) {
        let name = g.fresh("l");
        let n = 2 + g.rng.below(5);
        let ks: Vec<Ex> = (0..n).map(|_| key!()).collect();
        if g.push("list-of-keys", declare(&name, Ex::List(ks)), vec![]).is_ok() {
            lists.push(name);
        }
    }

    let mut attempts = 0;
    while g.script.stmts.len() < n_ops && attempts < 200 {
        attempts += 1;
        let d = g.rng.pick(&dicts).clone();
        let choice = g.rng.weighted(&[10, 10, 8, 6, 6, 5, 5, 4, 4, 4, 3, 4, 3, 6, 6, 3, 3, 2]);
        let r = match choice {
            0 => {
                nontrivial = true;
                let k = key!();
                g.push("lookup", Ex::Index(Box::new(var(&d)), Box::new(k)), vec![])
            }
            1 => {
                nontrivial = true;
                let k = key!();
                let v = int(g.rng.range(0, 9));
                g.push(
                    "store",
                    Ex::Assign(false, Box::new(Lv::Ident(d, vec![Ix::Index(k)])), Box::new(v)),
                    vec![],
                )
            }
            2 if g.rng.chance(1, 4) => {
                // `(d[k] = dflt) f= v`: the default is used exactly when no equal key is present
                nontrivial = true;
                let k = key!();
                let dflt = int(g.rng.range(10, 19));
                g.push(
                    "op-store-lvalue-default",
                    Ex::OpAssign(
                        false,
                        Box::new(Lv::Default(Box::new(Lv::Ident(d, vec![Ix::Index(k)])), Box::new(dflt))),
                        "+".into(),
                        Box::new(int(1)),
                    ),
                    vec![],
                )
            }
            2 => {
                nontrivial = true;
                let k = key!();
                g.push(
                    "op-store",
                    Ex::OpAssign(false, Box::new(Lv::Ident(d, vec![Ix::Index(k)])), "+".into(), Box::new(int(1))),
                    vec![],
                )
            }
            3 => {
                let k = key!();
                g.push("in", bin(k, "in", var(&d)), vec![])
            }
            4 => {
                let k = key!();
                g.push("safe-index", bin(var(&d), "!?", k), vec![])
            }
            5 => {
                let k = key!();
                g.push("remove", Ex::Remove(Box::new(Lv::Ident(d, vec![Ix::Index(k)]))), vec![])
            }
            6 => {
                let op = g.rng.pick(&["|.", "-."]).to_string();
                let k = key!();
                g.push("add-remove-key", Ex::OpAssign(false, Box::new(lv(&d)), op, Box::new(k)), vec![])
            }
            7 => {
                // binary dict operators, in place or into a new variable
                let other = g.rng.pick(&dicts).clone();
                let op = g.rng.pick(&["||", "&&", "--", "||+"]).to_string();
                if g.rng.chance(1, 2) {
                    g.push("dict-op-assign", Ex::OpAssign(false, Box::new(lv(&d)), op, Box::new(var(&other))), vec![])
                } else {
                    let name = g.fresh("d");
                    let r = g.push("dict-op", declare(&name, bin(var(&d), &op, var(&other))), vec![]);
                    if let Ok(Ok(_)) = r {
                        dicts.push(name);
                    }
                    r
                }
            }
            8 => {
                let op = g.rng.pick(&["insert", "|.."]).to_string();
                let k = key!();
                let v = int(g.rng.range(0, 9));
                g.push("insert", Ex::OpAssign(false, Box::new(lv(&d)), op, Box::new(Ex::List(vec![k, v]))), vec![])
            }
            9 => {
                // a new dictionary through set / dict / literal / comprehension
                let name = g.fresh("d");
                let n = 1 + g.rng.below(4);
                let ks: Vec<Ex> = (0..n).map(|_| key!()).collect();
                let e = match g.rng.below(4) {
                    0 => call("set", vec![Ex::List(ks)]),
                    1 => call(
                        "dict",
                        vec![Ex::List(
                            ks.into_iter()
                                .map(|k| {
                                    let v = int(g.rng.range(0, 9));
                                    Ex::List(vec![k, v])
                                })
                                .collect(),
                        )],
                    ),
                    2 => Ex::Dict(
                        None,
                        ks.into_iter()
                            .map(|k| {
                                let v = int(g.rng.range(0, 9));
                                (k, Some(v))
                            })
                            .collect(),
                    ),
                    _ => Ex::For(
                        vec![Clause::Each(lv("x"), Ex::List(ks))],
                        Box::new(ForBody::YieldItem(var("x"), int(1), None)),
                    ),
                };
                let r = g.push("dict-construct", declare(&name, e), vec![]);
                if let Ok(Ok(_)) = r {
                    dicts.push(name);
                    nontrivial = true;
                }
                r
            }
            10 => g.push("len", call("len", vec![var(&d)]), vec![]),
            11 => {
                let other = g.rng.pick(&dicts).clone();
                g.push("dict-eq", bin(var(&d), "==", var(&other)), vec![])
            }
            12 => {
                // list of keys and the de-duplicating functions
                let name = g.fresh("l");
                let n = 2 + g.rng.below(5);
                let ks: Vec<Ex> = (0..n).map(|_| key!()).collect();
                let r = g.push("list-of-keys", declare(&name, Ex::List(ks)), vec![]);
                if r.is_ok() {
                    lists.push(name);
                }
                r
            }
            13 => {
                if lists.is_empty() {
                    continue;
                }
                let l = g.rng.pick(&lists).clone();
                nontrivial = true;
                match g.rng.below(7) {
                    // group_all returns its groups in hash order: observe the number of classes and
                    // the sorted class sizes; classify is the same partition as a dictionary
                    4 => g.push("group_all-count", call("len", vec![call("group_all", vec![var(&l), var("id")])]), vec![]),
                    5 => g.push(
                        "group_all-sizes",
                        call("sort", vec![bin(call("group_all", vec![var(&l), var("id")]), "map", var("len"))]),
                        vec![],
                    ),
                    6 => {
                        let name = g.fresh("d");
                        let r = g.push("classify", declare(&name, call("classify", vec![var(&l), var("id")])), vec![]);
                        if let Ok(Ok(_)) = r {
                            dicts.push(name);
                        }
                        r
                    }
                    0 => {
                        // which spelling of several equal elements `unique` keeps is not part of
                        // the map model: with such elements only the classes are observed
                        let collide = match crate::model::Model::lookup(&g.model.top, &l) {
                            Some(V::List(xs)) => xs.iter().enumerate().any(|(i, a)| {
                                xs[..i].iter().any(|b| key_eq(a, b) && format!("{:?}", a) != format!("{:?}", b))
                            }),
                            _ => true,
                        };
                        if collide {
                            g.push("unique-classes", call("set", vec![call("unique", vec![var(&l)])]), vec![])
                        } else {
                            g.push("unique", call("unique", vec![var(&l)]), vec![])
                        }
                    }
                    1 => g.push("count_distinct", call("count_distinct", vec![var(&l)]), vec![]),
                    2 => {
                        let name = g.fresh("d");
                        let r = g.push("frequencies", declare(&name, call("frequencies", vec![var(&l)])), vec![]);
                        if let Ok(Ok(_)) = r {
                            dicts.push(name);
                        }
                        r
                    }
                    _ => {
                        let name = g.fresh("d");
                        let r = g.push("set-of-list", declare(&name, call("set", vec![var(&l)])), vec![]);
                        if let Ok(Ok(_)) = r {
                            dicts.push(name);
                        }
                        r
                    }
                }
            }
            14 => {
                // memoize: equal arguments must share one table entry
                match &memo {
                    None => {
                        let r1 = g.push("memo-counter", declare("calls", int(0)), vec![]);
                        if r1.is_err() {
                            break;
                        }
                        // half of the time every third call fails: a failed call must leave no
                        // table entry behind, so the same argument is computed again
                        let result = Ex::List(vec![var("k"), var("calls")]);
                        let last = if g.rng.chance(1, 2) {
                            Ex::If(
                                Box::new(bin(bin(var("calls"), "%", int(3)), "==", int(1))),
                                Box::new(Ex::Throw(Box::new(Ex::Str("memo body failed".into())))),
                                Some(Box::new(result)),
                            )
                        } else {
                            result
                        };
                        let body = Ex::Seq(
                            vec![Ex::OpAssign(false, Box::new(lv("calls")), "+".into(), Box::new(int(1))), last],
                            false,
                        );
                        let variadic = g.rng.chance(1, 3);
                        let (name, params) = if variadic {
                            ("mfv", vec![Lv::Splat(Box::new(lv("k")))])
                        } else {
                            ("mf", vec![lv("k")])
                        };
                        let r = g.push(
                            "memo-declare",
                            declare(name, call("memoize", vec![Ex::Lambda(params, Box::new(body))])),
                            vec![],
                        );
                        if r.is_ok() {
                            memo = Some(name.to_string());
                        }
                        r
                    }
                    Some(m) => {
                        nontrivial = true;
                        let m = m.clone();
                        if m == "mfv" {
                            // variadic: argument tuples are the keys -- f(a, b), f([a, b]), f() and
                            // f([]) are four different entries
                            let a = key!();
                            let b = key!();
                            let args = match g.rng.below(6) {
                                0 => vec![],
                                1 => vec![Ex::List(vec![])],
                                2 => vec![a],
                                3 => vec![a, b],
                                4 => vec![Ex::List(vec![a, b])],
                                _ => vec![Ex::List(vec![a])],
                            };
                            g.push("memo-call-variadic", call(&m, args), vec![])
                        } else {
                            let k = key!();
                            g.push("memo-call", call(&m, vec![k]), vec![])
                        }
                    }
                }
            }
            15 => {
                // values are ints: order-insensitive digest of the contents
                g.push("sum-values", call("sum", vec![call("values", vec![var(&d)])]), vec![])
            }
            16 => {
                // key spellings flow out of `keys`/`items` only where the map model determines
                // them (no two spellings of one key have met in this dictionary); otherwise only
                // their number is observed, through `values`
                let amb = match crate::model::Model::lookup(&g.model.top, &d) {
                    Some(V::Dict(dd)) => dd.amb,
                    _ => true,
                };
                if amb {
                    g.push("len-values", call("len", vec![call("values", vec![var(&d)])]), vec![])
                } else {
                    match g.rng.below(3) {
                        0 => g.push("len-keys", call("len", vec![call("keys", vec![var(&d)])]), vec![]),
                        1 => g.push("keys-as-set", call("set", vec![call("keys", vec![var(&d)])]), vec![]),
                        _ => g.push("items-as-dict", call("dict", vec![call("items", vec![var(&d)])]), vec![]),
                    }
                }
            }
            _ => {
                // alias then mutate: value semantics of dicts under every hasher
                let name = g.fresh("d");
                let r = g.push("dict-alias", declare(&name, var(&d)), vec![]);
                if let Ok(Ok(_)) = r {
                    dicts.push(name);
                }
                r
            }
        };
        if r.is_err() {
            break;
        }
    }
    finish(g, nontrivial)
}

fn finish(mut g: Gen, nontrivial: bool) -> DictOut {
    let _ = V::Null;
    DictOut {
        script: g.take_script(),
        kinds: std::mem::take(&mut g.kinds),
        nontrivial,
    }
}
