// One simulated session: the script is executed statement by statement on the real interpreter
// (persistent Env, real parse/evaluate) and on the reference model, with the same fault plan, and
// compared after every statement.

use crate::ir::*;
use crate::model::{Ctl, Model};
use crate::obs;
use crate::seams::{self, SimBufReader, SimReader, SimWriter, WriterStats};
use crate::val::*;
use noulith::{evaluate, initialize, parse, verif_hooks, Env, NErr, Obj, Rc, RefCell, TopEnv};
use serde::{Deserialize, Serialize};
use std::collections::BTreeMap;
use std::panic::{catch_unwind, AssertUnwindSafe};

#[derive(Clone, Debug, Serialize, Deserialize, PartialEq)]
pub enum Fault {
    /// before the statement: the output sink will accept only this many more bytes (F1)
    OutBudget(usize),
    /// before the statement: the sink accepts everything again
    OutUnlimited,
    /// one-shot cancellation after this many interpreter steps into the statement (F7)
    Cancel(u64),
}

#[derive(Clone, Debug, Serialize, Deserialize, PartialEq)]
pub struct Stmt {
    pub ex: Ex,
    pub faults: Vec<Fault>,
    /// variables the statement may write (computed by the generator on the IR); after a
    /// cancellation only these are adopted from the implementation
    #[serde(default)]
    pub write_set: Vec<String>,
    #[serde(default)]
    pub mode: Mode,
    /// OutcomeOnly: the statement is wrapped in try/catch, so an error must not escape it
    #[serde(default)]
    pub no_raise: bool,
    /// OutcomeOnly: all arguments are small and finite, so running out of the step budget is
    /// reported (bounded liveness: "never hangs on terminating input")
    #[serde(default)]
    pub must_terminate: bool,
    /// the statement (or a closure it may call) can write closure-local variables: after a
    /// cancellation the session is checked once more and then abandoned
    #[serde(default)]
    pub hidden_state: bool,
    /// OutcomeOnly: name of an implementation-only counter that a throwing callback among the
    /// arguments increments before it throws. If it moved and the call nevertheless returned a
    /// plain value, the callback's error was swallowed ("... or with an error that an enclosing
    /// try ... catch receives")
    #[serde(default)]
    pub swallow_probe: Option<String>,
    /// the variable holding that callback; the executor first checks that calling it really throws
    /// (a minimiser may have simplified its body), otherwise the probe is void
    #[serde(default)]
    pub swallow_thrower: Option<String>,
}

#[derive(Clone, Debug, Serialize, Deserialize, PartialEq, Default)]
pub enum Mode {
    /// full refinement check against the reference model
    #[default]
    Checked,
    /// implementation only: no panic, outcome is a value or a catchable error, every variable the
    /// statement does not name keeps its (model) value; variables in write_set and the output are
    /// adopted from the implementation
    OutcomeOnly,
}

#[derive(Clone, Debug, Serialize, Deserialize, PartialEq)]
pub struct RunCfg {
    pub hash_seed: u64,
    pub hash_shared: bool,
    /// 0 full, 1 constant, 2 two bits
    pub key_hash_mode: u8,
    pub allow_redecl: bool,
    /// interpreter-step budget per statement
    pub fuel: u64,
    pub short_writes: bool,
    pub eintr_every: u32,
    pub refuse_with_zero: bool,
    pub writer_seed: u64,
    /// input seam (S3): the byte script and its fault plan
    #[serde(default)]
    pub input: Vec<u8>,
    #[serde(default)]
    pub in_one_byte: bool,
    #[serde(default)]
    pub in_eintr_every: u32,
    #[serde(default)]
    pub in_err_at: Option<usize>,
    #[serde(default)]
    pub in_rewind: bool,
    /// C11 speaks about the elements of `reverse(s)`, `s[a:b]`, ... not about whether the result
    /// is an eager list or a lazy finite stream: with this set, a list and a finite stream with the
    /// same elements count as the same result (and the model follows the implementation's kind)
    #[serde(default)]
    pub seq_kind_tolerant: bool,
    /// the profile's statements are small and their cost in interpreter steps is proportional to
    /// the reference model's: an implementation that exhausts the step budget where the model
    /// finishes is reported (alias profile)
    #[serde(default)]
    pub strict_termination: bool,
}

impl Default for RunCfg {
    fn default() -> RunCfg {
        RunCfg {
            hash_seed: 1,
            hash_shared: false,
            key_hash_mode: 0,
            allow_redecl: false,
            fuel: 200_000,
            short_writes: false,
            eintr_every: 0,
            refuse_with_zero: false,
            writer_seed: 0,
            input: Vec::new(),
            in_one_byte: false,
            in_eintr_every: 0,
            in_err_at: None,
            in_rewind: false,
            seq_kind_tolerant: false,
            strict_termination: false,
        }
    }
}

/// top-level elements of a canonical list text `[a,b,...]` (quote- and bracket-aware)
fn split_top(list: &str) -> Vec<&str> {
    let inner = &list[1..list.len() - 1];
    let mut out = Vec::new();
    if inner.is_empty() {
        return out;
    }
    let b = inner.as_bytes();
    let (mut depth, mut in_str, mut esc, mut start) = (0i32, false, false, 0usize);
    for (i, c) in b.iter().enumerate() {
        if in_str {
            if esc {
                esc = false;
            } else if *c == b'\\' {
                esc = true;
            } else if *c == b'"' {
                in_str = false;
            }
            continue;
        }
        match c {
            b'"' => in_str = true,
            b'[' | b'{' | b'(' => depth += 1,
            b']' | b'}' | b')' => depth -= 1,
            b',' if depth == 0 => {
                out.push(&inner[start..i]);
                start = i + 1;
            }
            _ => {}
        }
    }
    out.push(&inner[start..]);
    out
}

/// the canonical text a finite stream with the elements of this list would have
fn as_stream_text(list: &str) -> String {
    let els = split_top(list);
    let mut s = String::from("S[");
    for (i, e) in els.iter().take(obs::STREAM_BOUND).enumerate() {
        if i > 0 {
            s.push(',');
        }
        s.push_str(e);
    }
    if els.len() > obs::STREAM_BOUND {
        s.push_str(",...");
    }
    s.push(']');
    s
}

/// equal, or a list on one side and a finite stream with the same elements on the other
pub fn seq_kind_tolerant_eq(a: &str, b: &str) -> bool {
    if a == b {
        return true;
    }
    if a.starts_with("S[") && b.starts_with('[') && b.ends_with(']') {
        return a == as_stream_text(b);
    }
    if b.starts_with("S[") && a.starts_with('[') && a.ends_with(']') {
        return b == as_stream_text(a);
    }
    false
}

#[derive(Clone, Debug, Serialize, Deserialize, PartialEq)]
pub struct Script {
    pub cfg: RunCfg,
    pub stmts: Vec<Stmt>,
    /// C02: an allocation-scaling family instead of a statement script
    #[serde(default)]
    pub alloc: Option<crate::alloc::AllocCase>,
}

#[derive(Clone, Debug, PartialEq, Serialize, Deserialize)]
pub enum Outcome {
    Value(String),
    Raised,
    Escaped(String),
    Panic(String),
    Fuel,
    Cancelled,
}

#[derive(Clone, Debug, Serialize, Deserialize, PartialEq)]
pub enum ViolationKind {
    /// the implementation panicked (C14 whatever the profile)
    Panic,
    /// raised / value / escaped disagree
    OutcomeClass,
    /// both returned values, which differ
    ResultValue,
    /// a variable differs from the model after the statement
    State,
    /// accepted output bytes differ
    Output,
    /// profile invariant (named)
    Invariant(String),
}

#[derive(Clone, Debug, Serialize, Deserialize)]
pub struct Violation {
    pub kind: ViolationKind,
    pub stmt_index: usize,
    pub source: String,
    pub expected: String,
    pub observed: String,
    pub detail: String,
}

#[derive(Clone, Debug, Default, Serialize, Deserialize)]
pub struct RunStats {
    pub stmts_run: u64,
    pub ticks: u64,
    pub raised: u64,
    pub values: u64,
    pub cancelled: u64,
    pub fuel_out: u64,
    pub writer: Option<WriterStatsSer>,
    pub probes: BTreeMap<String, u64>,
    pub maps_created: u64,
    pub state_hashes: Vec<u64>,
}

#[derive(Clone, Debug, Default, Serialize, Deserialize)]
pub struct WriterStatsSer {
    pub write_calls: u64,
    pub short_writes: u64,
    pub eintr: u64,
    pub refused: u64,
}
impl From<&WriterStats> for WriterStatsSer {
    fn from(w: &WriterStats) -> Self {
        WriterStatsSer {
            write_calls: w.write_calls,
            short_writes: w.short_writes,
            eintr: w.eintr,
            refused: w.refused,
        }
    }
}

#[derive(Clone, Debug, Serialize, Deserialize)]
pub enum RunEnd {
    Completed,
    /// the model declined to predict, or the generator produced something outside its fragment
    Inconclusive(String),
    Violation(Violation),
}

#[derive(Clone, Debug, Serialize, Deserialize)]
pub struct RunResult {
    /// violations at implementation-only statements after which the session could continue
    pub nonfatal: Vec<Violation>,
    pub end: RunEnd,
    pub stats: RunStats,
    /// event log: one line per statement (source, outcome, state hash); used by the determinism proof
    pub log: Vec<String>,
}

// progress published for the hang watchdog: worker id -> (run index + 1, statement index, start ms)
pub const MAX_WORKERS: usize = 64;
pub static PROGRESS_RUN: [std::sync::atomic::AtomicU64; MAX_WORKERS] =
    [const { std::sync::atomic::AtomicU64::new(0) }; MAX_WORKERS];
pub static PROGRESS_STMT: [std::sync::atomic::AtomicU64; MAX_WORKERS] =
    [const { std::sync::atomic::AtomicU64::new(0) }; MAX_WORKERS];
pub static PROGRESS_SINCE_MS: [std::sync::atomic::AtomicU64; MAX_WORKERS] =
    [const { std::sync::atomic::AtomicU64::new(0) }; MAX_WORKERS];

pub fn now_ms() -> u64 {
    static START: std::sync::OnceLock<std::time::Instant> = std::sync::OnceLock::new();
    START.get_or_init(std::time::Instant::now).elapsed().as_millis() as u64 + 1
}

thread_local! {
    static WORKER_ID: std::cell::Cell<usize> = const { std::cell::Cell::new(usize::MAX) };
}
pub fn set_worker(id: usize, run_plus_one: u64) {
    WORKER_ID.with(|w| w.set(id));
    if id < MAX_WORKERS {
        PROGRESS_RUN[id].store(run_plus_one, std::sync::atomic::Ordering::Relaxed);
        PROGRESS_SINCE_MS[id].store(now_ms(), std::sync::atomic::Ordering::Relaxed);
    }
}
fn publish_stmt(idx: usize) {
    let id = WORKER_ID.with(|w| w.get());
    if id < MAX_WORKERS {
        PROGRESS_STMT[id].store(idx as u64, std::sync::atomic::Ordering::Relaxed);
        PROGRESS_SINCE_MS[id].store(now_ms(), std::sync::atomic::Ordering::Relaxed);
    }
}

thread_local! {
    static LAST_PANIC: std::cell::RefCell<Option<String>> = std::cell::RefCell::new(None);
    static IN_EVAL: std::cell::Cell<bool> = std::cell::Cell::new(false);
}

pub fn trace_enabled() -> bool {
    static T: std::sync::OnceLock<bool> = std::sync::OnceLock::new();
    *T.get_or_init(|| std::env::var("NSIM_TRACE").is_ok())
}

pub fn install_panic_hook() {
    std::panic::set_hook(Box::new(|info| {
        let msg = if let Some(s) = info.payload().downcast_ref::<&str>() {
            s.to_string()
        } else if let Some(s) = info.payload().downcast_ref::<String>() {
            s.clone()
        } else {
            "<non-string panic>".to_string()
        };
        let loc = info
            .location()
            .map(|l| format!("{}:{}", l.file(), l.line()))
            .unwrap_or_default();
        if !IN_EVAL.with(|f| f.get()) {
            // a panic of the harness itself: never silent
            eprintln!("HARNESS PANIC: {} @ {}", msg, loc);
            // a bug in the harness is never a verdict: stop the whole process (exit 2)
            std::process::exit(2);
        }
        LAST_PANIC.with(|p| *p.borrow_mut() = Some(format!("{} @ {}", msg, loc)));
    }));
}

fn fnv(h: &mut u64, s: &str) {
    for b in s.bytes() {
        *h = (*h ^ b as u64).wrapping_mul(0x0000_0100_0000_01b3);
    }
}

pub struct Session {
    pub env: Rc<RefCell<Env>>,
    pub writer: SimWriter,
    pub reader: SimReader,
    pub tolerant: bool,
    pub model: Model,
    pub user_vars: Vec<String>,
}

impl Drop for Session {
    fn drop(&mut self) {
        // closures declared at top level capture the top environment: break the Rc cycles so the
        // ~400-entry global table of every run is actually freed
        if let Ok(mut e) = self.env.try_borrow_mut() {
            e.vars.clear();
            e.internal_stack.clear();
        }
        if let Ok(mut t) = self.model.top.try_borrow_mut() {
            t.vars.clear();
        }
        // inner scopes that are kept alive by closures they hold themselves
        verif_hooks::release_envs();
        crate::model::release_scopes();
    }
}

impl Session {
    pub fn new(cfg: &RunCfg) -> Session {
        // hasher seam: the global environment itself is built with full key hashing
        verif_hooks::set_key_hash_mode(0);
        verif_hooks::set_hash_seed(cfg.hash_seed, cfg.hash_shared);
        verif_hooks::set_fuel(None);
        verif_hooks::set_fault_after(None);
        verif_hooks::reset_ticks();
        let writer = SimWriter::new(cfg.writer_seed);
        {
            let mut w = writer.0.lock().unwrap();
            w.short = cfg.short_writes;
            w.eintr_every = cfg.eintr_every;
            w.refuse_with_zero = cfg.refuse_with_zero;
        }
        let reader = SimReader::new(cfg.input.clone());
        {
            let mut r = reader.0.lock().unwrap();
            r.one_byte = cfg.in_one_byte;
            r.eintr_every = cfg.in_eintr_every;
            r.err_at = cfg.in_err_at;
            r.rewind = cfg.in_rewind;
        }
        let mut env = Env::new(
            TopEnv {
                backrefs: Vec::new(),
                input: Box::new(SimBufReader::new(reader.clone())),
                output: Box::new(writer.clone()),
            },
            cfg.allow_redecl,
        );
        initialize(&mut env);
        verif_hooks::set_key_hash_mode(cfg.key_hash_mode);
        Session {
            env: Rc::new(RefCell::new(env)),
            writer,
            reader,
            tolerant: cfg.seq_kind_tolerant,
            model: {
                let mut m = Model::new(cfg.allow_redecl);
                m.input = cfg.input.clone();
                m.in_err_at = cfg.in_err_at;
                m
            },
            user_vars: Vec::new(),
        }
    }

    pub fn model_canon(&mut self, v: &V) -> Result<String, String> {
        let names = self.model.struct_names();
        let mut out = String::new();
        let mut err: Option<String> = None;
        let model = &mut self.model;
        canon_with(v, &names, &mut out, &mut |s, o| {
            // materialise like the observer does
            o.push_str("S[");
            let mut cur = s.clone();
            let mut n = 0;
            loop {
                if n == obs::STREAM_BOUND {
                    match model.stream_next(&cur) {
                        Ok(Some(_)) => o.push_str(",..."),
                        Ok(None) => {}
                        Err(Ctl::Throw(_)) => o.push_str(",..."),
                        Err(e) => err = Some(format!("{:?}", e)),
                    }
                    break;
                }
                match model.stream_next(&cur) {
                    Ok(None) => break,
                    Ok(Some((x, rest))) => {
                        if n > 0 {
                            o.push(',');
                        }
                        let mut sub = String::new();
                        canon_into(&x, &names, &mut sub);
                        o.push_str(&sub);
                        cur = rest;
                    }
                    Err(Ctl::Throw(_)) => {
                        if n > 0 {
                            o.push(',');
                        }
                        o.push_str("!err");
                        break;
                    }
                    Err(e) => {
                        err = Some(format!("{:?}", e));
                        break;
                    }
                }
                n += 1;
            }
            o.push(']');
        });
        match err {
            Some(e) => Err(e),
            None => Ok(out),
        }
    }

    /// user-declared top-level variable names of the model, in declaration order
    pub fn model_user_vars(&self) -> Vec<String> {
        let t = self.model.top.borrow();
        let skip = crate::model::BUILTINS.len() + crate::model::TYPES.len();
        t.vars.iter().skip(skip).map(|(n, _, _)| n.clone()).collect()
    }

    pub fn observe_var(&self, name: &str) -> Option<String> {
        match Env::try_borrow_get_var(&self.env, name) {
            Ok(o) => {
                IN_EVAL.with(|f| f.set(true));
                seams::set_observing(true);
                let c = catch_unwind(AssertUnwindSafe(|| obs::canon_obj(&o)));
                seams::set_observing(false);
                IN_EVAL.with(|f| f.set(false));
                match c {
                    Ok(c) => Some(c),
                    Err(_) => Some("<panic while iterating>".to_string()),
                }
            }
            Err(_) => None,
        }
    }
}

pub fn classify_impl(r: Result<Result<Obj, NErr>, Box<dyn std::any::Any + Send>>) -> (Outcome, Option<Obj>) {
    match r {
        Err(_) => {
            let msg = LAST_PANIC.with(|p| p.borrow_mut().take()).unwrap_or_else(|| "<panic>".to_string());
            (Outcome::Panic(msg), None)
        }
        Ok(Ok(o)) => {
            // materialising a lazy result runs interpreter code too
            IN_EVAL.with(|f| f.set(true));
            seams::set_observing(true);
            let c = catch_unwind(AssertUnwindSafe(|| obs::canon_obj(&o)));
            seams::set_observing(false);
            IN_EVAL.with(|f| f.set(false));
            match c {
                Ok(c) => (Outcome::Value(c), Some(o)),
                Err(_) => {
                    let msg = LAST_PANIC
                        .with(|p| p.borrow_mut().take())
                        .unwrap_or_else(|| "<panic>".to_string());
                    (Outcome::Panic(format!("while iterating the result: {}", msg)), None)
                }
            }
        }
        Ok(Err(NErr::Throw(e, _))) => {
            let is_hook = match &e {
                Obj::Seq(noulith::Seq::String(s)) => {
                    if s.contains(verif_hooks::FUEL_MESSAGE) {
                        Some(Outcome::Fuel)
                    } else if s.contains(verif_hooks::CANCEL_MESSAGE) {
                        Some(Outcome::Cancelled)
                    } else {
                        None
                    }
                }
                _ => None,
            };
            (is_hook.unwrap_or(Outcome::Raised), None)
        }
        Ok(Err(NErr::Break(..))) => (Outcome::Escaped("break".into()), None),
        Ok(Err(NErr::Continue(_))) => (Outcome::Escaped("continue".into()), None),
        Ok(Err(NErr::Return(_))) => (Outcome::Escaped("return".into()), None),
    }
}

fn execute_alloc(case: &crate::alloc::AllocCase) -> RunResult {
    let mut stats = RunStats::default();
    let mut log = Vec::new();
    let end = match crate::alloc::check(case) {
        Err(m) => RunEnd::Inconclusive(format!("alloc family not measurable: {}", m)),
        Ok(v) => {
            for m in v.measures.iter() {
                log.push(format!("n={} bytes={} allocs={} raised={}", m.n, m.bytes, m.allocs, m.raised));
                stats.stmts_run += m.n;
            }
            log.push(format!("slope={:.3}", v.slope));
            stats.probes.insert("alloc_slope_x1000_sum".into(), (v.slope * 1000.0) as u64);
            stats.probes.insert("alloc_families".into(), 1);
            if v.violation {
                RunEnd::Violation(Violation {
                    kind: ViolationKind::Invariant("alloc-scaling".into()),
                    stmt_index: 0,
                    source: format!("family {}: {}", case.family, case.mutate.join(" ; ")),
                    expected: format!(
                        "bytes allocated by n mutation statements grow like n (log-log slope <= {})",
                        crate::alloc::SLOPE_LIMIT
                    ),
                    observed: format!(
                        "slope {:.2}: {} bytes at n={}, {} at n={}, {} at n={}",
                        v.slope, v.measures[0].bytes, v.measures[0].n, v.measures[1].bytes, v.measures[1].n,
                        v.measures[2].bytes, v.measures[2].n
                    ),
                    detail: String::new(),
                })
            } else {
                RunEnd::Completed
            }
        }
    };
    stats.ticks = verif_hooks::ticks();
    RunResult {
        nonfatal: Vec::new(),
        end,
        stats,
        log,
    }
}

pub fn execute(script: &Script) -> RunResult {
    if let Some(case) = &script.alloc {
        return execute_alloc(case);
    }
    let mut sess = Session::new(&script.cfg);
    let mut stats = RunStats::default();
    let mut log = Vec::new();
    let mut nonfatal = Vec::new();
    let end = execute_inner(script, &mut sess, &mut stats, &mut log, &mut nonfatal);
    stats.ticks = verif_hooks::ticks();
    stats.maps_created = verif_hooks::maps_created();
    stats.writer = Some((&sess.writer.0.lock().unwrap().stats).into());
    for (k, v) in sess.model.probes.iter() {
        stats.probes.insert(k.to_string(), *v);
    }
    {
        let r = sess.reader.0.lock().unwrap();
        if !r.data.is_empty() {
            stats.probes.insert("input_read_calls".into(), r.stats.fill_calls);
            stats.probes.insert("input_eintr_fired".into(), r.stats.eintr);
            stats.probes.insert("input_read_error_fired".into(), r.stats.errors);
            stats.probes.insert("input_eof_reported".into(), r.stats.eof_seen);
        }
    }
    // leave the thread-local seams disarmed
    verif_hooks::set_fuel(None);
    verif_hooks::set_fault_after(None);
    verif_hooks::set_key_hash_mode(0);
    RunResult { nonfatal, end, stats, log }
}

fn execute_inner(
    script: &Script,
    sess: &mut Session,
    stats: &mut RunStats,
    log: &mut Vec<String>,
    nonfatal: &mut Vec<Violation>,
) -> RunEnd {
    // non-local targets of every lambda seen so far in the session (for the write set of a
    // statement that calls something)
    let mut session_lambda_writes: std::collections::BTreeSet<String> = std::collections::BTreeSet::new();
    for (idx, st) in script.stmts.iter().enumerate() {
        let src = render_top(&st.ex);
        // faults
        let mut cancel: Option<u64> = None;
        for f in &st.faults {
            match f {
                Fault::OutBudget(n) => {
                    sess.writer.0.lock().unwrap().budget = Some(*n);
                    sess.model.out_budget = Some(*n);
                }
                Fault::OutUnlimited => {
                    sess.writer.0.lock().unwrap().budget = None;
                    sess.model.out_budget = None;
                }
                Fault::Cancel(n) => cancel = Some(*n),
            }
        }
        let expr = match parse(&src) {
            Ok(Some(e)) => e,
            Ok(None) => return RunEnd::Inconclusive(format!("generator: empty parse: {}", src)),
            Err(e) => {
                return RunEnd::Inconclusive(format!("generator: unparsable: {} :: {}", src, e.render(&src)))
            }
        };
        if trace_enabled() {
            eprintln!("TRACE {}", src);
        }
        publish_stmt(idx);
        let read_counter = |sess: &Session, n: &str| -> Option<String> {
            Env::try_borrow_get_var(&sess.env, n).ok().map(|o| obs::canon_obj(&o))
        };
        let mut probe_valid = false;
        if let (Some(_), Some(tn)) = (&st.swallow_probe, &st.swallow_thrower) {
            if let Ok(Some(pe)) = parse(&format!("(try ({}(); 0) catch e -> 1)", tn)) {
                let env = sess.env.clone();
                IN_EVAL.with(|f| f.set(true));
                let pr = catch_unwind(AssertUnwindSafe(|| evaluate(&env, &pe)));
                IN_EVAL.with(|f| f.set(false));
                if let Ok(Ok(o)) = pr {
                    probe_valid = obs::canon_obj(&o) == "i1";
                }
            }
        }
        let probe_before = if probe_valid { st.swallow_probe.as_ref().and_then(|n| read_counter(sess, n)) } else { None };
        verif_hooks::set_fuel(Some(script.cfg.fuel));
        verif_hooks::set_fault_after(cancel);
        let env = sess.env.clone();
        IN_EVAL.with(|f| f.set(true));
        let r = catch_unwind(AssertUnwindSafe(|| evaluate(&env, &expr)));
        IN_EVAL.with(|f| f.set(false));
        verif_hooks::set_fuel(None);
        let cancel_fired = cancel.is_some() && !verif_hooks::fault_armed();
        verif_hooks::set_fault_after(None);
        drop(expr);
        let (impl_out, impl_obj) = classify_impl(r);
        stats.stmts_run += 1;
        if let (Some(n), Some(before), Outcome::Value(_)) = (&st.swallow_probe, &probe_before, &impl_out) {
            let after = read_counter(sess, n);
            let lazy = matches!(&impl_obj, Some(Obj::Seq(noulith::Seq::Stream(_))) | Some(Obj::Func(..)));
            if after.as_ref() != Some(before) && !lazy {
                sess.model.probe("callback_error_swallowed");
                nonfatal.push(Violation {
                    kind: ViolationKind::Invariant("callback error swallowed".into()),
                    stmt_index: idx,
                    source: src.clone(),
                    expected: "the error thrown by the callback reaches the caller (the call raises)".into(),
                    observed: "the callback ran and threw, the call returned a value".into(),
                    detail: String::new(),
                });
            } else if after.as_ref() != Some(before) {
                sess.model.probe("callback_threw_result_lazy");
            }
        }

        if let Outcome::Panic(msg) = &impl_out {
            log.push(format!("{} => PANIC {}", src, msg));
            let v = Violation {
                kind: ViolationKind::Panic,
                stmt_index: idx,
                source: src,
                expected: "value or catchable error".into(),
                observed: format!("panic: {}", msg),
                detail: String::new(),
            };
            if st.mode == Mode::OutcomeOnly && st.write_set.is_empty() {
                // the unwinding released every borrow: the session goes on, and the statements after
                // it check that it is still usable and that no variable moved
                nonfatal.push(v);
                continue;
            }
            return RunEnd::Violation(v);
        }
        if impl_out == Outcome::Fuel {
            stats.fuel_out += 1;
            log.push(format!("{} => FUEL", src));
            if st.mode == Mode::OutcomeOnly && st.write_set.is_empty() {
                // whatever the statement printed or read before the budget ran out stands
                {
                    let w = sess.writer.0.lock().unwrap();
                    sess.model.out = w.accepted.clone();
                    sess.model.out_budget = w.budget;
                    let r = sess.reader.0.lock().unwrap();
                    sess.model.in_pos = r.pos;
                    sess.model.in_err_at = r.err_at;
                }
                if st.must_terminate {
                    nonfatal.push(Violation {
                        kind: ViolationKind::Invariant("termination".into()),
                        stmt_index: idx,
                        source: src.clone(),
                        expected: format!("terminates within {} interpreter steps (small finite arguments)", script.cfg.fuel),
                        observed: "step budget exhausted".into(),
                        detail: String::new(),
                    });
                }
                // otherwise "did not terminate within budget" is not a violation by itself
                continue;
            }
            if st.mode == Mode::Checked && script.cfg.strict_termination {
                // the reference model finishes generated statements within a few thousand steps;
                // an implementation that burns its whole budget (30 times that and more) on one of
                // them does not terminate where the documented semantics do
                let top = sess.model.top.clone();
                sess.model.steps = 0;
                let r = sess.model.eval(&top, &st.ex);
                let decided = matches!(r, Ok(_) | Err(Ctl::Throw(_)) | Err(Ctl::Break(..)) | Err(Ctl::Continue(_)) | Err(Ctl::Return(_)));
                if decided && sess.model.steps * 30 <= script.cfg.fuel {
                    log.push(format!("{} => FUEL where the model terminates", src));
                    return RunEnd::Violation(Violation {
                        kind: ViolationKind::Invariant("termination".into()),
                        stmt_index: idx,
                        source: src,
                        expected: format!("terminates (the reference model needs {} steps)", sess.model.steps),
                        observed: format!("step budget of {} interpreter steps exhausted", script.cfg.fuel),
                        detail: String::new(),
                    });
                }
            }
            return RunEnd::Inconclusive("implementation ran out of fuel".into());
        }

        if cancel_fired || impl_out == Outcome::Cancelled {
            // F7: the evaluation was cancelled at an internal step the model cannot know (the error
            // may also have been caught inside the statement). The model does not run the
            // statement; the variables it may write and the output are adopted from the
            // implementation, every other variable must be unchanged, and the session goes on.
            stats.cancelled += 1;
            sess.model.probe("cancellation_fired");
            {
                let w = sess.writer.0.lock().unwrap();
                sess.model.out = w.accepted.clone();
                sess.model.out_budget = w.budget;
                let r = sess.reader.0.lock().unwrap();
                sess.model.in_pos = r.pos;
                sess.model.in_err_at = r.err_at;
            }
            let names = sess.model.struct_names();
            for name in st.write_set.iter() {
                match Env::try_borrow_get_var(&sess.env, name) {
                    Ok(o) => match obs::obj_to_v(&o, &names) {
                        Some(v) => sess.model.adopt_or_declare(name, v),
                        None => {
                            // functions and streams cannot be adopted: only acceptable when the
                            // model already holds a value of the same opaque kind
                            let mv = Model::lookup(&sess.model.top, name);
                            let same = match mv {
                                Some(mv) => sess.model_canon(&mv).ok() == Some(obs::canon_obj(&o)),
                                None => false,
                            };
                            if !same {
                                log.push(format!("{} => CANCELLED (cannot adopt {})", src, name));
                                return RunEnd::Inconclusive("cancellation: a written variable is not adoptable".into());
                            }
                        }
                    },
                    Err(_) => {
                        // not (or no longer) declared in the implementation
                        if Model::lookup(&sess.model.top, name).is_some() {
                            log.push(format!("{} => CANCELLED ({} vanished)", src, name));
                            return RunEnd::Inconclusive("cancellation: variable undeclared".into());
                        }
                    }
                }
            }
            match compare_state(sess, idx, &src) {
                Ok(h) => {
                    stats.state_hashes.push(h);
                    log.push(format!("{} => CANCELLED #{:016x}", src, h));
                }
                Err(end) => {
                    log.push(format!("{} => STATE MISMATCH AFTER CANCELLATION", src));
                    return end;
                }
            }
            if st.hidden_state {
                // a closure-local cell may or may not have been written: the model cannot follow
                return RunEnd::Inconclusive("cancellation with closure-local state".into());
            }
            continue;
        }

        if st.mode == Mode::OutcomeOnly {
            match &impl_out {
                Outcome::Value(_) => stats.values += 1,
                Outcome::Raised => {
                    stats.raised += 1;
                    if st.no_raise {
                        log.push(format!("{} => RAISED THROUGH TRY", src));
                        nonfatal.push(Violation {
                            kind: ViolationKind::OutcomeClass,
                            stmt_index: idx,
                            source: src.clone(),
                            expected: "value (the enclosing try/catch receives every error)".into(),
                            observed: "error escaped the enclosing try/catch".into(),
                            detail: String::new(),
                        });
                    }
                }
                Outcome::Cancelled => stats.cancelled += 1,
                o => {
                    log.push(format!("{} => ESCAPED {:?}", src, o));
                    return RunEnd::Violation(Violation {
                        kind: ViolationKind::OutcomeClass,
                        stmt_index: idx,
                        source: src,
                        expected: "value or catchable error".into(),
                        observed: format!("{:?}", o),
                        detail: String::new(),
                    });
                }
            }
            // adopt the output and the variables the statement names
            {
                let w = sess.writer.0.lock().unwrap();
                sess.model.out = w.accepted.clone();
                sess.model.out_budget = w.budget;
                let r = sess.reader.0.lock().unwrap();
                sess.model.in_pos = r.pos;
                sess.model.in_err_at = r.err_at;
            }
            for name in st.write_set.iter() {
                match Env::try_borrow_get_var(&sess.env, name) {
                    Ok(o) => match obs::obj_to_v(&o, &sess.model.struct_names()) {
                        Some(v) => {
                            if !sess.model.adopt_var(name, v) {
                                return RunEnd::Inconclusive(format!("adoption: {} unknown to the model", name));
                            }
                        }
                        None => return RunEnd::Inconclusive(format!("adoption: {} not representable", name)),
                    },
                    Err(_) => {}
                }
            }
            match compare_state(sess, idx, &src) {
                Ok(h) => {
                    stats.state_hashes.push(h);
                    log.push(format!("{} => {:?} #{:016x}", src, match &impl_out { Outcome::Value(_) => "V", _ => "E" }, h));
                }
                Err(end) => {
                    log.push(format!("{} => STATE MISMATCH", src));
                    return end;
                }
            }
            continue;
        }

        // model
        let top = sess.model.top.clone();
        sess.model.steps = 0;
        // the variables this statement may write, with their values before it: what a statement
        // that FAILS leaves in the variables it names is not pinned down by any property beyond
        // "only addressed slots change" -- both the old value (an atomic failure) and the model's
        // partially updated value are accepted below
        session_lambda_writes.extend(crate::freevars::lambda_free_writes(&st.ex));
        let mut may_write = crate::freevars::writes(&st.ex, false);
        if crate::freevars::contains_call(&st.ex) {
            may_write.extend(session_lambda_writes.iter().cloned());
        }
        let pre: Vec<(String, V)> = may_write
            .iter()
            .filter_map(|n| Model::lookup(&sess.model.top, n).map(|v| (n.clone(), v)))
            .collect();
        crate::model::UNSUPPORTED_RAISED.with(|c| c.set(false));
        sess.model.poisoned.clear();
        let catches_before = sess.model.probes.get("catch_ran").copied().unwrap_or(0);
        let model_r = sess.model.eval(&top, &st.ex);
        // a failure caught INSIDE the statement is a failed statement too, as far as the variables
        // it names are concerned
        let caught_inside = sess.model.probes.get("catch_ran").copied().unwrap_or(0) > catches_before;
        // HEAD refuses some operations only because they are not implemented for a kind of value
        // (pop on a vector, a nested write under an absent key of a defaulted dict, a whole-valued
        // rational as an index, slice assignment without `every`, ...). No property says they must
        // be refused: if the statement went through such a refusal in the model and the
        // implementation disagrees, the statement is not judged and the session ends undecided.
        let soft = crate::model::UNSUPPORTED_RAISED.with(|c| c.get());
        let model_out = match &model_r {
            Ok(v) => match sess.model_canon(&v.clone()) {
                Ok(s) => Outcome::Value(s),
                Err(e) => return RunEnd::Inconclusive(format!("model canon: {}", e)),
            },
            Err(Ctl::Throw(_)) => Outcome::Raised,
            Err(Ctl::Break(..)) => Outcome::Escaped("break".into()),
            Err(Ctl::Continue(_)) => Outcome::Escaped("continue".into()),
            Err(Ctl::Return(_)) => Outcome::Escaped("return".into()),
            Err(Ctl::Unknown(m)) => {
                log.push(format!("{} => model declines: {}", src, m));
                return RunEnd::Inconclusive(format!("model declines: {}", m));
            }
            Err(Ctl::Fuel) => return RunEnd::Inconclusive("model fuel".into()),
        };


        match (&impl_out, &model_out) {
            (Outcome::Value(a), Outcome::Value(b)) => {
                stats.values += 1;
                let same = if script.cfg.seq_kind_tolerant { seq_kind_tolerant_eq(a, b) } else { a == b };
                if !same && soft {
                    return RunEnd::Inconclusive("beyond HEAD: the model refused an operation HEAD does not implement".into());
                }
                if !same {
                    log.push(format!("{} => VALUE MISMATCH", src));
                    return RunEnd::Violation(Violation {
                        kind: ViolationKind::ResultValue,
                        stmt_index: idx,
                        source: src,
                        expected: b.clone(),
                        observed: a.clone(),
                        detail: String::new(),
                    });
                }
            }
            (Outcome::Raised, Outcome::Raised) => {
                stats.raised += 1;
            }
            (Outcome::Escaped(a), Outcome::Escaped(b)) if a == b => {}
            (Outcome::Value(_), _) | (_, Outcome::Value(_)) if soft => {
                return RunEnd::Inconclusive("beyond HEAD: the model refused an operation HEAD does not implement".into());
            }
            (a, b) => {
                log.push(format!("{} => OUTCOME MISMATCH", src));
                return RunEnd::Violation(Violation {
                    kind: ViolationKind::OutcomeClass,
                    stmt_index: idx,
                    source: src,
                    expected: format!("{:?}", b),
                    observed: format!("{:?}", a),
                    detail: String::new(),
                });
            }
        }

        if caught_inside || matches!((&impl_out, &model_out), (Outcome::Raised, Outcome::Raised)) {
            let regions = crate::region::regions(&st.ex);
            let names = sess.model.struct_names();
            for (name, old) in pre.iter() {
                let cur = match Model::lookup(&sess.model.top, name) {
                    Some(v) => v,
                    None => continue,
                };
                let ms = match sess.model_canon(&cur) {
                    Ok(a) => a,
                    _ => continue,
                };
                let is = match sess.observe_var(name) {
                    Some(is) => is,
                    None => continue,
                };
                if is == ms {
                    continue;
                }
                // the implementation left something else in a variable the failed statement
                // names: fine when that is the old value (the statement failed atomically) ...
                if let Ok(os) = sess.model_canon(old) {
                    if is == os {
                        sess.model.adopt_var(name, old.clone());
                        sess.model.probe("failed_statement_left_old_value");
                        continue;
                    }
                }
                // ... or as long as only the slots it addresses differ from before
                let new_v = match Env::try_borrow_get_var(&sess.env, name) {
                    Ok(o) => match obs::obj_to_v(&o, &names) {
                        Some(v) => v,
                        None => continue,
                    },
                    Err(_) => continue,
                };
                let mut paths: Vec<Vec<crate::region::Step>> =
                    regions.iter().filter(|(n, _)| n == name).map(|(_, p)| p.clone()).collect();
                if paths.is_empty() {
                    // written some other way (a closure the statement calls): addressed as a whole
                    paths.push(Vec::new());
                }
                if crate::region::allowed(old, &new_v, &paths) {
                    sess.model.adopt_var(name, new_v);
                    sess.model.probe("failed_statement_state_adopted");
                }
            }
            // variables the failed statement itself declared: whatever they hold now
            for name in may_write.iter() {
                if pre.iter().any(|(n, _)| n == name) {
                    continue;
                }
                let cur = match Model::lookup(&sess.model.top, name) {
                    Some(v) => v,
                    None => continue,
                };
                let (ms, is) = match (sess.model_canon(&cur), sess.observe_var(name)) {
                    (Ok(a), Some(b)) => (a, b),
                    _ => continue,
                };
                if ms != is {
                    if let Ok(o) = Env::try_borrow_get_var(&sess.env, name) {
                        if let Some(v) = obs::obj_to_v(&o, &names) {
                            sess.model.adopt_var(name, v);
                            sess.model.probe("failed_statement_state_adopted");
                        }
                    }
                }
            }
        }
        let h = match compare_state(sess, idx, &src) {
            Ok(h) => h,
            Err(RunEnd::Violation(_)) if soft => {
                return RunEnd::Inconclusive("beyond HEAD: the model refused an operation HEAD does not implement".into());
            }
            Err(end) => {
                log.push(format!("{} => STATE/OUTPUT MISMATCH", src));
                return end;
            }
        };
        stats.state_hashes.push(h);
        log.push(format!(
            "{} => {} #{:016x}",
            src,
            match &impl_out {
                Outcome::Value(v) => format!("V {}", v),
                o => format!("{:?}", o),
            },
            h
        ));
    }
    RunEnd::Completed
}

/// compare every user variable of the model, and the accepted output, with the implementation
fn compare_state(sess: &mut Session, idx: usize, src: &str) -> Result<u64, RunEnd> {
    let mut h: u64 = 0xcbf2_9ce4_8422_2325;
    let names = sess.model_user_vars();
    for name in names.iter() {
        let mv = Model::lookup(&sess.model.top, name).unwrap();
        let ms = match sess.model_canon(&mv) {
            Ok(s) => s,
            Err(e) => return Err(RunEnd::Inconclusive(format!("model canon: {}", e))),
        };
        let is = sess.observe_var(name).unwrap_or_else(|| "<undeclared>".to_string());
        fnv(&mut h, name);
        fnv(&mut h, &ms);
        if ms != is && sess.tolerant && seq_kind_tolerant_eq(&ms, &is) {
            // same elements, other kind (eager list / lazy finite stream): follow the implementation
            let nv = match &mv {
                V::Stream(st) => match sess.model.force_stream(st) {
                    Ok(xs) => V::List(xs),
                    Err(_) => return Err(RunEnd::Inconclusive("kind adoption: stream not forceable".into())),
                },
                V::List(xs) => V::Stream(crate::val::StreamV::Fin(xs.clone())),
                _ => return Err(RunEnd::Inconclusive("kind adoption: unexpected value".into())),
            };
            if !sess.model.adopt_var(name, nv) {
                return Err(RunEnd::Inconclusive("kind adoption: unknown variable".into()));
            }
            continue;
        }
        if ms != is {
            return Err(RunEnd::Violation(Violation {
                kind: ViolationKind::State,
                stmt_index: idx,
                source: src.to_string(),
                expected: format!("{} = {}", name, ms),
                observed: format!("{} = {}", name, is),
                detail: String::new(),
            }));
        }
    }
    let w = sess.writer.0.lock().unwrap();
    if w.accepted != sess.model.out {
        let a = String::from_utf8_lossy(&w.accepted).to_string();
        let b = String::from_utf8_lossy(&sess.model.out).to_string();
        return Err(RunEnd::Violation(Violation {
            kind: ViolationKind::Output,
            stmt_index: idx,
            source: src.to_string(),
            expected: b,
            observed: a,
            detail: String::new(),
        }));
    }
    fnv(&mut h, &format!("{}", w.accepted.len()));
    let r = sess.reader.0.lock().unwrap();
    if !r.rewind && (r.pos != sess.model.in_pos || r.err_at != sess.model.in_err_at) {
        return Err(RunEnd::Violation(Violation {
            kind: ViolationKind::State,
            stmt_index: idx,
            source: src.to_string(),
            expected: format!("input consumed up to byte {} (pending read error: {:?})", sess.model.in_pos, sess.model.in_err_at),
            observed: format!("input consumed up to byte {} (pending read error: {:?})", r.pos, r.err_at),
            detail: String::new(),
        }));
    }
    if !r.data.is_empty() {
        fnv(&mut h, &format!("in{}", r.pos));
    }
    Ok(h)
}

/// Run a script in its own thread and give up after `secs` of wall clock on one statement. None =
/// hang (the thread is abandoned; callers exit the process soon afterwards). Returns the statement.
pub fn execute_watched(script: &Script, secs: u64) -> Result<RunResult, usize> {
    let (tx, rx) = std::sync::mpsc::channel();
    let sc = script.clone();
    let slot = MAX_WORKERS - 1;
    std::thread::Builder::new()
        .stack_size(256 << 20)
        .spawn(move || {
            install_panic_hook();
            set_worker(slot, 1);
            let r = execute(&sc);
            let _ = tx.send(r);
        })
        .unwrap();
    loop {
        match rx.recv_timeout(std::time::Duration::from_millis(200)) {
            Ok(r) => return Ok(r),
            Err(std::sync::mpsc::RecvTimeoutError::Timeout) => {
                let since = PROGRESS_SINCE_MS[slot].load(std::sync::atomic::Ordering::Relaxed);
                if since != 0 && now_ms().saturating_sub(since) > secs * 1000 {
                    return Err(PROGRESS_STMT[slot].load(std::sync::atomic::Ordering::Relaxed) as usize);
                }
            }
            Err(_) => return Err(usize::MAX),
        }
    }
}
