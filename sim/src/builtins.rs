// Model-side builtins, written from the documentation (BUILTINS.md / README) and checked against
// the implementation's observable behaviour. Anything not covered returns Ctl::Unknown, which makes
// the run inconclusive instead of guessing.

use crate::model::*;
use crate::val::*;
use num::bigint::BigInt;
use num::{Integer, Signed, ToPrimitive, Zero};
use std::cell::RefCell;
use std::cmp::Ordering;
use std::rc::Rc;

fn throw<T>(m: &str) -> R<T> {
    throw_(m)
}
fn unknown<T>(m: &str) -> R<T> {
    unknown_(m)
}

/// partial order of the language (`<`, sort, min/max): None = incomparable
pub fn vcmp(a: &V, b: &V) -> Option<Ordering> {
    match (a, b) {
        (V::Null, V::Null) => Some(Ordering::Equal),
        (x, y) if is_num(x) && is_num(y) => {
            let (ar, ai) = num_parts(x)?;
            let (br, bi) = num_parts(y)?;
            match real_cmp(&ar, &br)? {
                Ordering::Equal => real_cmp(&ai, &bi),
                o => Some(o),
            }
        }
        (V::Str(x), V::Str(y)) => Some(x.cmp(y)),
        (V::Bytes(x), V::Bytes(y)) => Some(x.cmp(y)),
        (V::List(x), V::List(y)) | (V::Vector(x), V::Vector(y)) => {
            for (p, q) in x.iter().zip(y.iter()) {
                match vcmp(p, q)? {
                    Ordering::Equal => {}
                    o => return Some(o),
                }
            }
            Some(x.len().cmp(&y.len()))
        }
        _ => None,
    }
}

/// comparison as the comparison operators, `<=>`, min and max apply it at the top level: only
/// number-number and sequence-sequence pairs are comparable (null is not, even with itself)
pub fn ncmp(a: &V, b: &V) -> Option<Ordering> {
    let seq = |v: &V| matches!(v, V::Str(_) | V::Bytes(_) | V::List(_) | V::Vector(_) | V::Dict(_) | V::Stream(_));
    if (is_num(a) && is_num(b)) || (seq(a) && seq(b)) {
        vcmp(a, b)
    } else {
        None
    }
}

fn is_scalar_class(v: &V) -> bool {
    matches!(v, V::Null | V::Int(_) | V::Rat(_) | V::Float(_) | V::Cx(..) | V::Str(_) | V::Bytes(_))
}

fn model_sort(xs: Vec<V>) -> R<Vec<V>> {
    let mut all_ok = true;
    for i in 0..xs.len() {
        for j in (i + 1)..xs.len() {
            if vcmp(&xs[i], &xs[j]).is_none() {
                all_ok = false;
            }
        }
    }
    if all_ok {
        let mut v = xs;
        v.sort_by(|a, b| vcmp(a, b).unwrap());
        Ok(v)
    } else if xs.iter().all(is_scalar_class) {
        throw("value error: not comparable")
    } else {
        // comparability of nested sequences is not transitive: whether the implementation's sort
        // meets the incomparable pair depends on its algorithm
        unknown("sort with partially comparable nested elements")
    }
}

fn arith(name: &str, a: &V, b: &V) -> R<V> {
    match (a, b) {
        (V::Int(x), V::Int(y)) => match name {
            "+" => Ok(V::Int(x + y)),
            "-" => Ok(V::Int(x - y)),
            "*" => Ok(V::Int(x * y)),
            "//" => {
                if y.is_zero() {
                    throw("value error: division by zero")
                } else {
                    Ok(V::Int(x.div_floor(y)))
                }
            }
            "%%" => {
                if y.is_zero() {
                    throw("value error: division by zero")
                } else {
                    Ok(V::Int(x.mod_floor(y)))
                }
            }
            "%" => {
                if y.is_zero() {
                    // C-style remainder by zero: must be an error value, never a crash
                    throw("value error: division by zero")
                } else {
                    Ok(V::Int(x % y))
                }
            }
            _ => unknown("arith op"),
        },
        (x, y) if (is_num(x) || matches!(x, V::Vector(_))) && (is_num(y) || matches!(y, V::Vector(_))) => {
            unknown("non-integer arithmetic")
        }
        _ => throw("argument error: only accepts numbers"),
    }
}

fn concat(a: V, b: V) -> R<V> {
    match (a, b) {
        (V::List(mut x), V::List(y)) => {
            x.extend(y);
            Ok(V::List(x))
        }
        (V::Vector(mut x), V::Vector(y)) => {
            x.extend(y);
            Ok(V::Vector(x))
        }
        (V::Bytes(mut x), V::Bytes(y)) => {
            x.extend(y);
            Ok(V::Bytes(x))
        }
        // mixed sequence kinds: HEAD refuses, a sensible result exists
        (
            V::List(_) | V::Vector(_) | V::Bytes(_) | V::Str(_) | V::Stream(_),
            V::List(_) | V::Vector(_) | V::Bytes(_) | V::Str(_) | V::Stream(_),
        ) => crate::model::throw_unsupported("argument error: ++"),
        _ => throw("argument error: ++"),
    }
}

fn append(a: V, b: V) -> R<V> {
    match a {
        V::List(mut x) => {
            x.push(b);
            Ok(V::List(x))
        }
        V::Vector(mut x) => {
            if is_num(&b) {
                x.push(b);
                Ok(V::Vector(x))
            } else {
                throw("type error: append to vector: non-number")
            }
        }
        V::Bytes(mut x) => match &b {
            V::Int(n) => match n.to_u8() {
                Some(k) => {
                    x.push(k);
                    Ok(V::Bytes(x))
                }
                None => throw("value error: can't convert number to byte"),
            },
            y if is_num(y) => throw("value error: can't convert number to byte"),
            _ => throw("value error: can't convert non-number to byte"),
        },
        _ => throw("argument error: append"),
    }
}

fn prepend(a: V, b: V) -> R<V> {
    // prepend(elem, seq)
    match b {
        V::List(mut x) => {
            x.insert(0, a);
            Ok(V::List(x))
        }
        V::Vector(mut x) => {
            if is_num(&a) {
                x.insert(0, a);
                Ok(V::Vector(x))
            } else {
                throw("type error: prepend to vector: non-number")
            }
        }
        V::Bytes(mut x) => match &a {
            V::Int(n) => match n.to_u8() {
                Some(k) => {
                    x.insert(0, k);
                    Ok(V::Bytes(x))
                }
                None => throw("value error: can't convert number to byte"),
            },
            y if is_num(y) => throw("value error: can't convert number to byte"),
            _ => throw("value error: can't convert non-number to byte"),
        },
        _ => throw("argument error: prepend"),
    }
}

fn need2(name: &str, mut args: Vec<V>) -> R<(V, V)> {
    if args.len() == 2 {
        let b = args.pop().unwrap();
        let a = args.pop().unwrap();
        Ok((a, b))
    } else if args.len() == 1 {
        unknown("partial application of a two-argument builtin")
    } else {
        let _ = name;
        throw("argument error: two arguments expected")
    }
}
fn need1(mut args: Vec<V>) -> R<V> {
    if args.len() == 1 {
        Ok(args.pop().unwrap())
    } else {
        throw("type error: expected one argument")
    }
}

fn obj_in(m: &mut Model, a: V, b: V) -> R<bool> {
    match (&a, &b) {
        (_, V::Dict(d)) => {
            let k = m.to_key(a.clone())?;
            Ok(d.get(&k).is_some())
        }
        (V::Str(s), V::Str(v)) => Ok(v.contains(s.as_str())),
        (_, V::Stream(s)) => {
            // element by element, stopping at the first match
            let mut cur = s.clone();
            let mut guard = 0;
            loop {
                match m.stream_next(&cur)? {
                    None => return Ok(false),
                    Some((x, rest)) => {
                        if veq(&x, &a) {
                            return Ok(true);
                        }
                        cur = rest;
                    }
                }
                guard += 1;
                if guard > 5000 {
                    return unknown("in: no match within the model's horizon (infinite stream)");
                }
            }
        }
        (_, V::List(_)) | (_, V::Vector(_)) | (_, V::Bytes(_)) | (_, V::Str(_)) => {
            let xs = m.iterate(&b, "in")?;
            Ok(xs.iter().any(|e| veq(e, &a)))
        }
        _ => throw("type error: in: not compatible"),
    }
}

fn safe_index(m: &mut Model, x: V, i: V) -> R<V> {
    fn inner(len: usize, i: &V) -> Option<usize> {
        match i {
            V::Int(n) => match n.to_usize() {
                Some(k) if k < len => Some(k),
                _ => None,
            },
            _ => None,
        }
    }
    match &x {
        V::Null => Ok(V::Null),
        V::Str(s) => {
            let bs = s.as_bytes();
            match inner(bs.len(), &i) {
                Some(k) => m.index(&x, &vint(k as i64)),
                None => Ok(V::Null),
            }
        }
        V::List(xs) | V::Vector(xs) => match inner(xs.len(), &i) {
            Some(k) => Ok(xs[k].clone()),
            None => Ok(V::Null),
        },
        V::Bytes(bs) => match inner(bs.len(), &i) {
            Some(k) => Ok(vint(bs[k] as i64)),
            None => Ok(V::Null),
        },
        V::Dict(d) => {
            let k = m.to_key(i)?;
            match d.get(&k) {
                Some(v) => Ok(v.clone()),
                None => match &d.default {
                    Some(dv) => Ok((**dv).clone()),
                    None => Ok(V::Null),
                },
            }
        }
        V::Stream(_) => throw("type error: can't safe index stream"),
        _ => throw("type error: can't safe index"),
    }
}

fn extremum(m: &mut Model, name: &str, args: Vec<V>) -> R<V> {
    let want = if name == "max" { Ordering::Greater } else { Ordering::Less };
    let items: Vec<V> = match args.len() {
        0 => return throw("type error: at least 1 arg"),
        1 => match &args[0] {
            V::Dict(_) => return unknown("extremum over dict (hash order)"),
            V::Func(_) => return unknown("extremum partial application"),
            V::Stream(s) if Model::stream_is_infinite(s) => return unknown("extremum of infinite"),
            v @ (V::List(_) | V::Vector(_) | V::Bytes(_) | V::Str(_) | V::Stream(_)) => m.iterate(v, name)?,
            _ => return unknown("extremum partial application"),
        },
        _ => {
            if args.iter().any(|a| matches!(a, V::Func(_))) {
                return unknown("extremum with key function");
            }
            args
        }
    };
    let mut ret: Option<V> = None;
    for b in items {
        let take = match &ret {
            None => true,
            Some(r) => match ncmp(&b, r) {
                Some(o) => o == want,
                None => return throw("type error: can't compare"),
            },
        };
        if take {
            ret = Some(b);
        }
    }
    match ret {
        Some(r) => Ok(r),
        None => throw("empty error: extremum of empty"),
    }
}

fn list_like(m: &mut Model, v: &V, what: &str) -> R<Vec<V>> {
    match v {
        V::Dict(_) => unknown("iteration over dict (hash order)"),
        V::Stream(s) if Model::stream_is_infinite(s) => unknown("consuming an infinite stream"),
        v => m.iterate(v, what),
    }
}

fn same_kind(orig: &V, xs: Vec<V>) -> R<V> {
    match orig {
        V::List(_) | V::Stream(_) => Ok(V::List(xs)),
        V::Vector(_) => Ok(V::Vector(xs)),
        V::Str(_) => {
            let mut s = String::new();
            for x in xs {
                match x {
                    V::Str(c) => s.push_str(&c),
                    _ => return unknown("string rebuild"),
                }
            }
            Ok(V::Str(s))
        }
        V::Bytes(_) => {
            let mut out = Vec::new();
            for x in xs {
                match x {
                    V::Int(n) => out.push(n.to_u8().unwrap()),
                    _ => return unknown("bytes rebuild"),
                }
            }
            Ok(V::Bytes(out))
        }
        _ => unknown("same_kind"),
    }
}

fn as_func(v: &V) -> Option<Rc<FuncV>> {
    match v {
        V::Func(f) => Some(f.clone()),
        _ => None,
    }
}

fn to_usize_clamped(v: &V) -> R<usize> {
    match v {
        V::Int(n) => {
            if n.is_negative() || n.is_zero() {
                Ok(0)
            } else {
                match n.to_usize() {
                    Some(k) => Ok(k),
                    None => throw("value error: bad number to usize"),
                }
            }
        }
        x if is_num(x) => throw("value error: bad number to usize"),
        _ => throw("type error: bad scalar"),
    }
}

/// Generated programs stay small; a value this large means a runaway (growth the step budget does
/// not see), which the model declines to follow.
fn size_guard(v: &V) -> R<()> {
    let too_big = match v {
        V::List(x) | V::Vector(x) => x.len() > 400,
        V::Str(s) => s.len() > 20_000,
        V::Bytes(b) => b.len() > 20_000,
        V::Int(n) => n.bits() > 20_000,
        V::Dict(d) => d.entries.len() > 400,
        _ => false,
    };
    if too_big {
        unknown("size guard: value too large for the model")
    } else {
        Ok(())
    }
}

pub fn call_builtin(m: &mut Model, site: &ScopeRef, name: &str, args: Vec<V>) -> R<V> {
    let r = call_builtin_inner(m, site, name, args)?;
    size_guard(&r)?;
    Ok(r)
}

fn call_builtin_inner(m: &mut Model, site: &ScopeRef, name: &str, args: Vec<V>) -> R<V> {
    match name {
        "+" | "*" | "//" | "%" | "%%" => {
            let (a, b) = need2(name, args)?;
            arith(name, &a, &b)
        }
        // true division as a function is outside the modelled fragment (its pattern form `a / b`
        // is modelled)
        "/" => unknown("true division"),
        "-" => match args.len() {
            1 => match &args[0] {
                V::Int(n) => Ok(V::Int(-n)),
                x if is_num(x) || matches!(x, V::Vector(_)) => unknown("unary minus on non-int"),
                _ => throw("argument error: unary - only accepts numbers"),
            },
            2 => arith("-", &args[0], &args[1]),
            0 => throw("argument error: received 0 args"),
            _ => throw("argument error: -"),
        },
        "==" | "!=" | "<" | "<=" | ">" | ">=" => {
            if args.len() == 0 {
                return throw("argument error: comparison needs 2+ args");
            }
            if args.len() == 1 {
                return unknown("comparison partial application");
            }
            for w in args.windows(2) {
                let ok = match name {
                    "==" => veq(&w[0], &w[1]),
                    "!=" => !veq(&w[0], &w[1]),
                    _ => {
                        let o = match ncmp(&w[0], &w[1]) {
                            Some(o) => o,
                            None => return throw("type error: can't compare"),
                        };
                        match name {
                            "<" => o == Ordering::Less,
                            "<=" => o != Ordering::Greater,
                            ">" => o == Ordering::Greater,
                            _ => o != Ordering::Less,
                        }
                    }
                };
                if !ok {
                    return Ok(boolv(false));
                }
            }
            Ok(boolv(true))
        }
        "<=>" => {
            let (a, b) = need2(name, args)?;
            match ncmp(&a, &b) {
                Some(Ordering::Less) => Ok(vint(-1)),
                Some(Ordering::Equal) => Ok(vint(0)),
                Some(Ordering::Greater) => Ok(vint(1)),
                None => throw("type error: can't compare"),
            }
        }
        "not" => {
            let a = need1(args)?;
            Ok(boolv(!m.truthy(&a)?))
        }
        "len" => {
            let a = need1(args)?;
            match &a {
                V::List(x) | V::Vector(x) => Ok(vint(x.len() as i64)),
                V::Str(s) => Ok(vint(s.len() as i64)),
                V::Bytes(b) => Ok(vint(b.len() as i64)),
                V::Dict(d) => Ok(vint(d.entries.len() as i64)),
                V::Stream(s) => {
                    if Model::stream_is_infinite(s) {
                        match s {
                            StreamV::Map(..) | StreamV::Filter(..) | StreamV::Zip(..) => {
                                unknown("len of lazily derived infinite stream (does not terminate)")
                            }
                            _ => Ok(V::Float(f64::INFINITY)),
                        }
                    } else {
                        let xs = m.force_stream_quiet(s)?;
                        Ok(vint(xs.len() as i64))
                    }
                }
                _ => throw("type error: sequence only"),
            }
        }
        "append" | "+." => {
            let (a, b) = need2(name, args)?;
            append(a, b)
        }
        ".+" => {
            let (a, b) = need2(name, args)?;
            prepend(a, b)
        }
        "++" => {
            let (a, b) = need2(name, args)?;
            concat(a, b)
        }
        ".." | "=>" => {
            let (a, b) = need2(name, args)?;
            Ok(V::List(vec![a, b]))
        }
        ".*" => {
            let (a, b) = need2(name, args)?;
            let n = to_usize_clamped(&b)?;
            if n > 10_000 {
                return unknown("huge replication");
            }
            Ok(V::List(vec![a; n]))
        }
        "*." => {
            let (a, b) = need2(name, args)?;
            let n = to_usize_clamped(&a)?;
            if n > 10_000 {
                return unknown("huge replication");
            }
            Ok(V::List(vec![b; n]))
        }
        "$" => {
            let mut acc = String::new();
            for a in args.iter() {
                match display(a, false) {
                    Some(s) => acc.push_str(&s),
                    None => return unknown("$ of value the model cannot render"),
                }
            }
            Ok(V::Str(acc))
        }
        "||" => {
            let (a, b) = need2(name, args)?;
            match (a, b) {
                (V::Dict(mut x), V::Dict(y)) => {
                    x.amb |= y.amb;
                    for (k, v) in y.entries {
                        x.insert(k, v);
                    }
                    Ok(V::Dict(x))
                }
                _ => throw("argument error: ||"),
            }
        }
        "||+" => {
            // merge; values under a common key are added (numbers only), the left key spelling stays
            let (a, b) = need2(name, args)?;
            match (a, b) {
                (V::Dict(mut x), V::Dict(y)) => {
                    x.amb |= y.amb;
                    for (k, v) in y.entries {
                        match x.find_w(&k) {
                            None => x.entries.push((k, v)),
                            Some(j) => {
                                let old = x.entries[j].1.clone();
                                if matches!(old, V::Vector(_)) || matches!(v, V::Vector(_)) {
                                    return unknown("||+ on vectors");
                                }
                                if !is_num(&old) || !is_num(&v) {
                                    return throw("argument error: ||+ on non-numbers");
                                }
                                x.entries[j].1 = arith("+", &old, &v)?;
                            }
                        }
                    }
                    Ok(V::Dict(x))
                }
                _ => throw("argument error: ||+"),
            }
        }
        "group_all" | "classify" => {
            // classes of `==` on f(x), in order of first appearance (the implementation's order is
            // the hash order: the generators only observe order-insensitive digests of group_all)
            let (a, f) = need2(name, args)?;
            let f = match (&a, as_func(&f)) {
                (V::List(_) | V::Vector(_) | V::Str(_) | V::Bytes(_) | V::Dict(_), Some(f)) => f,
                (V::Stream(_), Some(_)) => return unknown("grouping a stream"),
                _ => return throw("value error: not seq+func"),
            };
            let xs = m.iterate(&a, name)?;
            let mut d = Dict::new();
            for x in xs {
                let k = m.call_func_at(site, &f, vec![x.clone()])?;
                let k = m.to_key(k)?;
                match d.find_w(&k) {
                    Some(j) => {
                        if let V::List(g) = &mut d.entries[j].1 {
                            g.push(x);
                        }
                    }
                    None => d.entries.push((k, V::List(vec![x]))),
                }
            }
            if name == "classify" {
                Ok(V::Dict(d))
            } else {
                Ok(V::List(d.entries.into_iter().map(|(_, g)| g).collect()))
            }
        }
        "&&" | "--" => {
            let (a, b) = need2(name, args)?;
            match (a, b) {
                (V::Dict(mut x), V::Dict(y)) => {
                    let keep_if_in = name == "&&";
                    if keep_if_in {
                        // a key present on both sides under two spellings: either may be kept
                        let mut yy = y.clone();
                        yy.amb = false;
                        for (k, _) in x.entries.iter() {
                            yy.find_w(k);
                        }
                        x.amb |= yy.amb | y.amb;
                    }
                    x.entries.retain(|(k, _)| y.get(k).is_some() == keep_if_in);
                    Ok(V::Dict(x))
                }
                _ => throw("argument error: dict operator"),
            }
        }
        "|." => {
            let (a, b) = need2(name, args)?;
            match a {
                V::Dict(mut x) => {
                    let k = m.to_key(b)?;
                    x.insert(k, V::Null);
                    Ok(V::Dict(x))
                }
                _ => throw("argument error: |."),
            }
        }
        "-." | "discard" => {
            let (a, b) = need2(name, args)?;
            match a {
                V::Dict(mut x) => {
                    let k = m.to_key(b)?;
                    x.remove(&k);
                    Ok(V::Dict(x))
                }
                _ => throw("argument error: -."),
            }
        }
        "insert" | "|.." => {
            let (a, b) = need2(name, args)?;
            let pair = match &b {
                V::Dict(_) => return unknown("pair from dict"),
                V::Stream(s) if Model::stream_is_infinite(s) => return unknown("pair from infinite stream"),
                V::List(_) | V::Vector(_) | V::Str(_) | V::Bytes(_) | V::Stream(_) => m.iterate(&b, name)?,
                _ => return throw("argument error: insert"),
            };
            match a {
                V::Dict(mut x) => {
                    if pair.len() != 2 {
                        return throw("argument error: RHS must be pair");
                    }
                    let k = m.to_key(pair[0].clone())?;
                    x.insert(k, pair[1].clone());
                    Ok(V::Dict(x))
                }
                V::List(mut xs) if name == "|.." => {
                    if pair.len() != 2 {
                        return throw("argument error: RHS must be pair");
                    }
                    let j = match &pair[0] {
                        V::Int(n) => match n.to_isize() {
                            Some(n) => {
                                let len = xs.len() as isize;
                                if n >= 0 && n < len {
                                    n as usize
                                } else if n < 0 && n + len >= 0 {
                                    (n + len) as usize
                                } else {
                                    return throw("index error: out of bounds");
                                }
                            }
                            None => return throw("index error"),
                        },
                        _ => return throw("index error"),
                    };
                    xs[j] = pair[1].clone();
                    Ok(V::List(xs))
                }
                _ => throw("argument error: insert"),
            }
        }
        "max" | "min" => extremum(m, name, args),
        "keys" | "values" | "items" => {
            let a = need1(args)?;
            match &a {
                V::Dict(d) if d.amb && name != "values" && !d.entries.is_empty() => {
                    unknown("key spelling not determined (equal keys of different spellings met)")
                }
                V::Dict(d) => Ok(V::List(match name {
                    "keys" => d.entries.iter().map(|(k, _)| k.clone()).collect(),
                    "values" => d.entries.iter().map(|(_, v)| v.clone()).collect(),
                    _ => d
                        .entries
                        .iter()
                        .map(|(k, v)| V::List(vec![k.clone(), v.clone()]))
                        .collect(),
                })),
                V::Stream(s) if Model::stream_is_infinite(s) => unknown("keys of infinite stream"),
                V::List(_) | V::Vector(_) | V::Str(_) | V::Bytes(_) | V::Stream(_) => {
                    if name == "items" {
                        return throw("argument error: items");
                    }
                    let xs = m.iterate(&a, name)?;
                    Ok(V::List(if name == "keys" {
                        (0..xs.len()).map(|i| vint(i as i64)).collect()
                    } else {
                        xs
                    }))
                }
                _ => {
                    if name == "items" {
                        throw("argument error: items")
                    } else {
                        throw("type error: not iterable")
                    }
                }
            }
        }
        "sort" => {
            if args.len() != 1 {
                return unknown("sort with comparator");
            }
            let a = need1(args)?;
            match &a {
                V::Func(_) => unknown("sort partial application"),
                V::List(_) | V::Vector(_) | V::Str(_) | V::Bytes(_) | V::Stream(_) => {
                    let xs = list_like(m, &a, "sort")?;
                    let sorted = model_sort(xs)?;
                    same_kind(&a, sorted)
                }
                V::Dict(d) if d.amb => unknown("key spelling not determined"),
                V::Dict(d) => {
                    // sort of a dict sorts its keys: order-insensitive, fine
                    let xs: Vec<V> = d.entries.iter().map(|(k, _)| k.clone()).collect();
                    Ok(V::List(model_sort(xs)?))
                }
                _ => throw("type error: sort: not number or func"),
            }
        }
        "in" | "not_in" => {
            let (a, b) = need2(name, args)?;
            let r = obj_in(m, a, b)?;
            Ok(boolv(if name == "in" { r } else { !r }))
        }
        "contains" => {
            let (a, b) = need2(name, args)?;
            let r = obj_in(m, b, a)?;
            Ok(boolv(r))
        }
        "!?" => {
            let (a, b) = need2(name, args)?;
            safe_index(m, a, b)
        }
        "!!" | "index" => {
            let (a, b) = need2(name, args)?;
            m.index(&a, &b)
        }
        "reverse" => {
            let a = need1(args)?;
            match &a {
                V::Dict(_) => unknown("reverse of dict (hash order)"),
                V::Stream(s) if Model::stream_is_infinite(s) => unknown("reverse of infinite stream"),
                V::List(_) | V::Vector(_) | V::Str(_) | V::Bytes(_) | V::Stream(_) => {
                    let mut xs = m.iterate(&a, "reverse")?;
                    xs.reverse();
                    same_kind(&a, xs)
                }
                _ => throw("argument error: reverse"),
            }
        }
        "first" | "second" | "third" | "last" => {
            let a = need1(args)?;
            let idx: isize = match name {
                "first" => 0,
                "second" => 1,
                "third" => 2,
                _ => -1,
            };
            match &a {
                V::Dict(_) => throw("type error: dict is not a linear sequence"),
                V::List(_) | V::Vector(_) | V::Str(_) | V::Bytes(_) | V::Stream(_) => {
                    m.index(&a, &vint(idx as i64))
                }
                _ => throw("argument error"),
            }
        }
        "id" => need1(args),
        "const" => {
            let (_, b) = need2(name, args)?;
            Ok(b)
        }
        "print" | "echo" | "write" => {
            let mut text = String::new();
            let mut started = false;
            for a in args.iter() {
                if started && name != "write" {
                    text.push(' ');
                }
                started = true;
                match display(a, false) {
                    Some(s) => text.push_str(&s),
                    None => return unknown("printing a value the model cannot render"),
                }
            }
            if name == "print" {
                text.push('\n');
            }
            // the real sink receives fragments; the accepted prefix is the same
            m.emit_text(&text)?;
            Ok(V::Null)
        }
        "is" => {
            let (a, b) = need2(name, args)?;
            let ty = m.to_type_pub(&b)?;
            Ok(boolv(m.is_type(&ty, &a)?))
        }
        "satisfying" => {
            let a = need1(args)?;
            match &a {
                V::Func(f) => Ok(V::Func(Rc::new(FuncV::Type(Ty::Satisfying(f.clone()))))),
                _ => throw("type error: expected func"),
            }
        }
        "set" => {
            let a = need1(args)?;
            match &a {
                V::Stream(s) if Model::stream_is_infinite(s) => unknown("set of infinite stream"),
                V::List(_) | V::Vector(_) | V::Str(_) | V::Bytes(_) | V::Stream(_) | V::Dict(_) => {
                    let xs = m.iterate(&a, "set")?;
                    let mut d = Dict::new();
                    for x in xs {
                        let k = m.to_key(x)?;
                        d.insert(k, V::Null);
                    }
                    Ok(V::Dict(d))
                }
                _ => throw("argument error: set"),
            }
        }
        "V" => {
            if args.iter().all(is_num) {
                Ok(V::Vector(args))
            } else {
                throw("type error: can't convert to vector")
            }
        }
        "L" => Ok(V::List(args)),
        "B" => {
            let mut out = Vec::new();
            for a in args.iter() {
                match a {
                    V::Int(n) => match n.to_u8() {
                        Some(b) => out.push(b),
                        None => return throw("value error: can't convert number to byte"),
                    },
                    x if is_num(x) => return throw("value error: can't convert number to byte"),
                    _ => return throw("value error: can't convert non-number to byte"),
                }
            }
            Ok(V::Bytes(out))
        }
        "then" => {
            let (a, b) = need2(name, args)?;
            match as_func(&b) {
                Some(f) => m.call_func_at(site, &f, vec![a]),
                None => throw("type error: can't call non-function"),
            }
        }
        "." => {
            let (a, b) = need2(name, args)?;
            match as_func(&b) {
                Some(f) => m.call_func_at(site, &f, vec![a]),
                None => unknown(". with non-function"),
            }
        }
        "apply" => {
            let (a, b) = need2(name, args)?;
            let xs = list_like(m, &a, "apply")?;
            match as_func(&b) {
                Some(f) => m.call_func_at(site, &f, xs),
                None => throw("type error: can't call non-function"),
            }
        }
        "map" | "each" | "filter" => {
            let (a, b) = need2(name, args)?;
            let f = match as_func(&b) {
                Some(f) => f,
                None => return unknown("hof with non-function second argument"),
            };
            if let V::Func(_) = a {
                return unknown("hof composition form");
            }
            match &a {
                V::List(_) | V::Vector(_) | V::Str(_) | V::Bytes(_) | V::Stream(_) | V::Dict(_) => {}
                _ => return throw("type error: not iterable"),
            }
            let xs = list_like(m, &a, name)?;
            let mut out = Vec::new();
            for x in xs {
                let r = m.call_func_at(site, &f, vec![x.clone()])?;
                match name {
                    "map" => out.push(r),
                    "filter" => {
                        if m.truthy(&r)? {
                            out.push(x)
                        }
                    }
                    _ => {}
                }
            }
            match name {
                "map" => Ok(V::List(out)),
                "filter" => same_kind(&a, out),
                _ => Ok(V::Null),
            }
        }
        "sum" => {
            if args.len() != 1 {
                return unknown("sum with mapper");
            }
            let a = need1(args)?;
            if let V::Func(_) = a {
                return unknown("sum partial application");
            }
            let xs = match &a {
                V::Dict(d) if d.amb => return unknown("key spelling not determined"),
                V::Dict(d) => d.entries.iter().map(|(k, _)| k.clone()).collect(),
                v => list_like(m, v, "sum")?,
            };
            let mut acc = BigInt::zero();
            for x in xs {
                match x {
                    V::Int(n) => acc += n,
                    y if is_num(&y) || matches!(y, V::Vector(_)) => return unknown("sum of non-int"),
                    _ => return throw("argument error: + only accepts numbers"),
                }
            }
            Ok(V::Int(acc))
        }
        "fold" => {
            if args.len() != 2 {
                return unknown("fold arity");
            }
            let (a, b) = need2(name, args)?;
            let f = match as_func(&b) {
                Some(f) => f,
                None => return unknown("fold with non-function"),
            };
            let xs = match &a {
                V::List(_) | V::Vector(_) | V::Str(_) | V::Bytes(_) | V::Stream(_) => list_like(m, &a, "fold")?,
                _ => return unknown("fold over non-sequence"),
            };
            let mut it = xs.into_iter();
            let mut acc = match it.next() {
                Some(x) => x,
                None => return throw("empty error: fold: empty seq"),
            };
            for x in it {
                acc = m.call_func_at(site, &f, vec![acc, x])?;
            }
            Ok(acc)
        }
        "unique" => {
            let a = need1(args)?;
            match &a {
                V::List(_) | V::Vector(_) | V::Str(_) | V::Bytes(_) | V::Stream(_) => {
                    let xs = list_like(m, &a, "unique")?;
                    let mut seen: Vec<V> = Vec::new();
                    let mut out = Vec::new();
                    for x in xs {
                        let k = m.to_key(x.clone())?;
                        if !seen.iter().any(|s| key_eq(s, &k)) {
                            seen.push(k);
                            out.push(x);
                        }
                    }
                    same_kind(&a, out)
                }
                V::Dict(_) => unknown("unique of dict"),
                _ => throw("argument error: unique"),
            }
        }
        "count_distinct" => {
            if args.len() != 1 {
                return unknown("count_distinct with mapper");
            }
            let a = need1(args)?;
            match &a {
                V::Func(_) => unknown("count_distinct partial application"),
                V::List(_) | V::Vector(_) | V::Str(_) | V::Bytes(_) | V::Stream(_) | V::Dict(_) => {
                    if let V::Stream(s) = &a {
                        if Model::stream_is_infinite(s) {
                            return throw("value error: infinite, will not terminate");
                        }
                    }
                    let xs = m.iterate(&a, "count_distinct")?;
                    let mut seen: Vec<V> = Vec::new();
                    for x in xs {
                        let k = m.to_key(x)?;
                        if !seen.iter().any(|s| key_eq(s, &k)) {
                            seen.push(k);
                        }
                    }
                    Ok(vint(seen.len() as i64))
                }
                _ => throw("argument error: count_distinct"),
            }
        }
        "frequencies" => {
            let a = need1(args)?;
            match &a {
                V::List(_) | V::Vector(_) | V::Str(_) | V::Bytes(_) | V::Stream(_) | V::Dict(_) => {
                    if let V::Stream(s) = &a {
                        if Model::stream_is_infinite(s) {
                            return unknown("frequencies of infinite stream");
                        }
                    }
                    let xs = m.iterate(&a, "frequencies")?;
                    let mut d = Dict {
                        entries: Vec::new(),
                        default: Some(Box::new(vint(0))),
                        amb: false,
                    };
                    for x in xs {
                        let k = m.to_key(x)?;
                        match d.find_w(&k) {
                            Some(j) => {
                                if let V::Int(n) = &d.entries[j].1 {
                                    d.entries[j].1 = V::Int(n + 1);
                                }
                            }
                            None => d.entries.push((k, vint(1))),
                        }
                    }
                    Ok(V::Dict(d))
                }
                _ => throw("type error: not iterable"),
            }
        }
        "memoize" => {
            let a = need1(args)?;
            match as_func(&a) {
                Some(f) => Ok(V::Func(Rc::new(FuncV::Memo(f, RefCell::new(Vec::new()))))),
                None => throw("type error: not func"),
            }
        }
        "throw'" => unknown("throw'"),
        "even" | "odd" => {
            let a = need1(args)?;
            match &a {
                V::Int(n) => Ok(boolv(n.is_even() == (name == "even"))),
                _ => unknown("parity of non-int"),
            }
        }
        "abs" => {
            let a = need1(args)?;
            match &a {
                V::Int(n) => Ok(V::Int(n.abs())),
                _ => unknown("abs of non-int"),
            }
        }
        "input" => {
            match args.len() {
                0 => {}
                1 => match &args[0] {
                    // prompt: written and flushed before the read
                    V::Str(p) => {
                        let p = p.clone();
                        m.emit_text(&p)?;
                    }
                    _ => return throw("argument error: input"),
                },
                _ => return throw("argument error: input"),
            }
            let line = m.read_input(true)?;
            match String::from_utf8(line) {
                Ok(s) => Ok(V::Str(s)),
                Err(_) => throw("value error: input failed: stream did not contain valid UTF-8"),
            }
        }
        "read" | "read_bytes" => {
            if !args.is_empty() {
                return throw("argument error");
            }
            let rest = m.read_input(false)?;
            if name == "read_bytes" {
                return Ok(V::Bytes(rest));
            }
            match String::from_utf8(rest) {
                Ok(s) => Ok(V::Str(s)),
                Err(_) => throw("value error: input failed: stream did not contain valid UTF-8"),
            }
        }
        "interact" | "interact_lines" => {
            let rest = m.read_input(false)?;
            let text = match String::from_utf8(rest) {
                Ok(s) => s,
                Err(_) => return throw("value error: interact: input failed"),
            };
            let mut cur = if name == "interact" {
                V::Str(text)
            } else {
                V::List(text.split_terminator('\n').map(|w| V::Str(w.to_string())).collect())
            };
            for a in args {
                match &a {
                    V::Func(f) => cur = m.call_func_at(site, f, vec![cur])?,
                    _ => return throw("type error: not callable"),
                }
            }
            if name == "interact" {
                match display(&cur, false) {
                    Some(s) => m.emit_text(&s)?,
                    None => return unknown("printing a value the model cannot render"),
                }
                return Ok(V::Null);
            }
            // one line per element; a lazy result is forced element by element, each element
            // written before the next one is computed
            match &cur {
                V::Dict(d) if d.entries.len() >= 2 => return unknown("iterating a dict (hash order)"),
                V::Stream(s) => {
                    let mut s = s.clone();
                    while let Some((x, rest)) = m.stream_next(&s)? {
                        match display(&x, false) {
                            Some(t) => m.emit_text(&format!("{}\n", t))?,
                            None => return unknown("printing a value the model cannot render"),
                        }
                        s = rest;
                    }
                }
                _ => {
                    for x in m.iterate(&cur, "interact lines print")? {
                        match display(&x, false) {
                            Some(t) => m.emit_text(&format!("{}\n", t))?,
                            None => return unknown("printing a value the model cannot render"),
                        }
                    }
                }
            }
            Ok(V::Null)
        }
        _ => crate::streams_model::call_stream_builtin(m, site, name, args),
    }
}

impl Model {
    /// consume input: one line (up to and including the newline) or everything up to end of
    /// input. A pending read error fires when the read reaches its offset; the bytes consumed
    /// before it are lost, as they are for a real `BufRead`.
    pub fn read_input(&mut self, line: bool) -> R<Vec<u8>> {
        let start = self.in_pos.min(self.input.len());
        let mut end = self.input.len();
        if line {
            if let Some(i) = self.input[start..].iter().position(|b| *b == b'\n') {
                end = start + i + 1;
            }
        }
        if let Some(k) = self.in_err_at {
            // the error is delivered when a read is attempted at exactly offset k
            let complete_before = line && end <= k && end > start && self.input[end - 1] == b'\n';
            if k >= start && k <= self.input.len() && !complete_before {
                self.in_pos = k;
                self.in_err_at = None;
                self.probe("read_fault_raised");
                return throw("value error: input failed");
            }
        }
        self.in_pos = end;
        Ok(self.input[start..end].to_vec())
    }
    pub fn emit_text(&mut self, text: &str) -> R<()> {
        let bytes = text.as_bytes();
        match self.out_budget {
            None => {
                self.out.extend_from_slice(bytes);
                Ok(())
            }
            Some(b) => {
                if bytes.len() <= b {
                    self.out.extend_from_slice(bytes);
                    self.out_budget = Some(b - bytes.len());
                    Ok(())
                } else {
                    self.out.extend_from_slice(&bytes[..b]);
                    self.out_budget = Some(0);
                    self.probe("write_fault_raised");
                    throw("io error: writing")
                }
            }
        }
    }
    pub fn to_type_pub(&self, v: &V) -> R<Ty> {
        match v {
            V::Null => Ok(Ty::Null),
            V::Func(f) => match &**f {
                FuncV::Type(t) => Ok(t.clone()),
                _ => throw("type error: can't convert to type"),
            },
            _ => throw("type error: can't convert to type"),
        }
    }
}
