// Minimisation: delta debugging over the script and its fault plan while the same violation class
// persists. Every candidate is a fresh pair of executions (model + implementation).

use crate::ir::*;
use crate::run::*;

/// coarse class of a violation: what must persist while shrinking
pub fn class_of(v: &Violation) -> String {
    match &v.kind {
        ViolationKind::Panic => {
            // panic payload without the location
            let msg = v.observed.split(" @ ").next().unwrap_or("").to_string();
            format!("Panic:{}", msg)
        }
        k => format!("{:?}", k),
    }
}

fn still_fails(script: &Script, class: &str) -> Option<Violation> {
    let r = execute(script);
    for v in r.nonfatal.into_iter() {
        if class_of(&v) == class {
            return Some(v);
        }
    }
    match r.end {
        RunEnd::Violation(v) if class_of(&v) == class => Some(v),
        _ => None,
    }
}

fn shrink_ex(e: &Ex) -> Vec<Ex> {
    // candidate simplifications of one expression (shallow; applied repeatedly)
    let mut out = Vec::new();
    match e {
        Ex::List(xs) if !xs.is_empty() => {
            for i in 0..xs.len() {
                let mut ys = xs.clone();
                ys.remove(i);
                out.push(Ex::List(ys));
            }
            for (i, x) in xs.iter().enumerate() {
                for s in shrink_ex(x) {
                    let mut ys = xs.clone();
                    ys[i] = s;
                    out.push(Ex::List(ys));
                }
            }
        }
        Ex::Dict(def, kvs) => {
            if def.is_some() {
                out.push(Ex::Dict(None, kvs.clone()));
            }
            for i in 0..kvs.len() {
                let mut ys = kvs.clone();
                ys.remove(i);
                out.push(Ex::Dict(def.clone(), ys));
            }
            for (i, (k, v)) in kvs.iter().enumerate() {
                if let Some(v) = v {
                    for s in shrink_ex(v) {
                        let mut ys = kvs.clone();
                        ys[i] = (k.clone(), Some(s));
                        out.push(Ex::Dict(def.clone(), ys));
                    }
                }
            }
        }
        Ex::Call(f, args) => {
            for (i, x) in args.iter().enumerate() {
                for s in shrink_ex(x) {
                    let mut ys = args.clone();
                    ys[i] = s;
                    out.push(Ex::Call(f.clone(), ys));
                }
            }
        }
        Ex::Num(NumLit::Int(n)) if *n != 0 && *n != 1 => {
            out.push(Ex::Num(NumLit::Int(0)));
            out.push(Ex::Num(NumLit::Int(1)));
        }
        Ex::Num(NumLit::Pow2(_)) | Ex::Num(NumLit::Big(_)) => out.push(Ex::Num(NumLit::Int(1))),
        Ex::Str(s) if s.len() > 1 => out.push(Ex::Str("a".to_string())),
        Ex::Seq(xs, t) if xs.len() > 1 => {
            for i in 0..xs.len() {
                let mut ys = xs.clone();
                ys.remove(i);
                out.push(Ex::Seq(ys, *t));
            }
        }
        Ex::Assign(ev, l, rhs) => {
            for s in shrink_ex(rhs) {
                out.push(Ex::Assign(*ev, l.clone(), Box::new(s)));
            }
        }
        Ex::OpAssign(ev, l, op, rhs) => {
            for s in shrink_ex(rhs) {
                out.push(Ex::OpAssign(*ev, l.clone(), op.clone(), Box::new(s)));
            }
        }
        _ => {}
    }
    out
}

pub fn minimise(script: &Script, v: &Violation, budget: usize) -> (Script, Violation) {
    if let Some(case) = &script.alloc {
        let small = crate::alloc::minimise(case);
        let s2 = Script {
            cfg: script.cfg.clone(),
            stmts: Vec::new(),
            alloc: Some(small),
        };
        return match still_fails(&s2, &class_of(v)) {
            Some(nv) => (s2, nv),
            None => (script.clone(), v.clone()),
        };
    }
    let class = class_of(v);
    let mut best = script.clone();
    // nothing after the failing statement matters
    best.stmts.truncate(v.stmt_index + 1);
    let mut best_v = match still_fails(&best, &class) {
        Some(v) => v,
        None => return (script.clone(), v.clone()),
    };
    let mut tries = 0usize;

    // 1. configuration: prefer the default hasher / writer configuration
    let defaults = RunCfg::default();
    let mut cands: Vec<RunCfg> = Vec::new();
    {
        let mut c = best.cfg.clone();
        c.key_hash_mode = 0;
        cands.push(c);
        let mut c = best.cfg.clone();
        c.hash_shared = false;
        cands.push(c);
        let mut c = best.cfg.clone();
        c.hash_seed = defaults.hash_seed;
        cands.push(c);
        let mut c = best.cfg.clone();
        c.allow_redecl = false;
        cands.push(c);
        let mut c = best.cfg.clone();
        c.short_writes = false;
        c.eintr_every = 0;
        c.refuse_with_zero = false;
        cands.push(c);
    }
    for c in cands {
        let mut cand = best.clone();
        cand.cfg = RunCfg { fuel: best.cfg.fuel, ..c };
        tries += 1;
        if let Some(nv) = still_fails(&cand, &class) {
            best = cand;
            best_v = nv;
        }
    }

    // 2. ddmin over statements (the last statement is the failing one and stays)
    let mut chunk = (best.stmts.len() / 2).max(1);
    loop {
        let mut changed = false;
        let mut start = 0;
        while start + 1 < best.stmts.len() && tries < budget {
            let end = (start + chunk).min(best.stmts.len() - 1);
            let mut cand = best.clone();
            cand.stmts.drain(start..end);
            tries += 1;
            match still_fails(&cand, &class) {
                Some(nv) => {
                    best = cand;
                    best.stmts.truncate(nv.stmt_index + 1);
                    best_v = nv;
                    changed = true;
                }
                None => start = end,
            }
        }
        if tries >= budget {
            break;
        }
        if chunk == 1 {
            if !changed {
                break;
            }
        } else {
            chunk = (chunk / 2).max(1);
        }
    }

    // 3. drop faults
    for i in 0..best.stmts.len() {
        if !best.stmts[i].faults.is_empty() && tries < budget {
            let mut cand = best.clone();
            cand.stmts[i].faults.clear();
            tries += 1;
            if let Some(nv) = still_fails(&cand, &class) {
                best = cand;
                best_v = nv;
            }
        }
    }

    // 4. shrink literals / sub-expressions
    let mut progress = true;
    while progress && tries < budget {
        progress = false;
        let mut i = 0;
        while i < best.stmts.len() {
            let cands = shrink_ex(&best.stmts[i].ex);
            for c in cands {
                if tries >= budget {
                    break;
                }
                let mut cand = best.clone();
                if i >= cand.stmts.len() {
                    break;
                }
                cand.stmts[i].ex = c;
                tries += 1;
                if let Some(nv) = still_fails(&cand, &class) {
                    if nv.stmt_index + 1 == cand.stmts.len() || nv.stmt_index < cand.stmts.len() {
                        best = cand;
                        best.stmts.truncate(nv.stmt_index + 1);
                        best_v = nv;
                        progress = true;
                        break;
                    }
                }
            }
            i += 1;
        }
    }
    (best, best_v)
}
