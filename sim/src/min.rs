// Minimisation: delta debugging over the script and its fault plan while the same violation class
// persists. Every candidate is a fresh pair of executions (model + implementation).

use crate::ir::*;
use crate::run::*;

/// coarse class of a violation: what must persist while shrinking
pub fn class_of(v: &Violation) -> String {
    match &v.kind {
        ViolationKind::Panic => {
            // panic payload without the location
            let msg = v.observed.split(" @ ").next().unwrap_or("").to_string();
            format!("Panic:{}", msg)
        }
        k => format!("{:?}", k),
    }
}

fn still_fails(script: &Script, class: &str) -> Option<Violation> {
    let r = execute(script);
    for v in r.nonfatal.into_iter() {
        if class_of(&v) == class {
            return Some(v);
        }
    }
    match r.end {
        RunEnd::Violation(v) if class_of(&v) == class => Some(v),
        _ => None,
    }
}

/// children of a node and a function that rebuilds the node from (possibly replaced) children
fn parts(e: &Ex) -> (Vec<Ex>, Box<dyn Fn(Vec<Ex>) -> Ex>) {
    fn b(x: &Ex) -> Box<Ex> {
        Box::new(x.clone())
    }
    match e {
        Ex::List(xs) => (xs.clone(), Box::new(|c| Ex::List(c))),
        Ex::CommaSeq(xs) => (xs.clone(), Box::new(|c| Ex::CommaSeq(c))),
        Ex::Seq(xs, t) => {
            let t = *t;
            (xs.clone(), Box::new(move |c| Ex::Seq(c, t)))
        }
        Ex::Call(f, args) => {
            let mut ch = vec![(**f).clone()];
            ch.extend(args.iter().cloned());
            (ch, Box::new(|mut c| {
                let f = c.remove(0);
                Ex::Call(Box::new(f), c)
            }))
        }
        Ex::Index(x, i) => (vec![(**x).clone(), (**i).clone()], Box::new(|c| Ex::Index(b(&c[0]), b(&c[1])))),
        Ex::Bin(l, op, r) => {
            let op = op.clone();
            (vec![(**l).clone(), (**r).clone()], Box::new(move |c| Ex::Bin(b(&c[0]), op.clone(), b(&c[1]))))
        }
        Ex::Chain(first, rest) => {
            let ops: Vec<String> = rest.iter().map(|(o, _)| o.clone()).collect();
            let mut ch = vec![(**first).clone()];
            ch.extend(rest.iter().map(|(_, x)| x.clone()));
            (ch, Box::new(move |mut c| {
                let f = c.remove(0);
                Ex::Chain(Box::new(f), ops.iter().cloned().zip(c.into_iter()).collect())
            }))
        }
        Ex::And(a, c2) => (vec![(**a).clone(), (**c2).clone()], Box::new(|c| Ex::And(b(&c[0]), b(&c[1])))),
        Ex::Or(a, c2) => (vec![(**a).clone(), (**c2).clone()], Box::new(|c| Ex::Or(b(&c[0]), b(&c[1])))),
        Ex::Coalesce(a, c2) => (vec![(**a).clone(), (**c2).clone()], Box::new(|c| Ex::Coalesce(b(&c[0]), b(&c[1])))),
        Ex::If(c0, a, e2) => match e2 {
            Some(e2) => (
                vec![(**c0).clone(), (**a).clone(), (**e2).clone()],
                Box::new(|c| Ex::If(b(&c[0]), b(&c[1]), Some(b(&c[2])))),
            ),
            None => (vec![(**c0).clone(), (**a).clone()], Box::new(|c| Ex::If(b(&c[0]), b(&c[1]), None))),
        },
        Ex::While(c0, body) => (vec![(**c0).clone(), (**body).clone()], Box::new(|c| Ex::While(b(&c[0]), b(&c[1])))),
        Ex::For(clauses, body) => {
            let clauses = clauses.clone();
            match &**body {
                ForBody::Do(x) => (vec![x.clone()], Box::new(move |c| Ex::For(clauses.clone(), Box::new(ForBody::Do(c[0].clone()))))),
                ForBody::Yield(x, into) => {
                    let into = into.clone();
                    (vec![x.clone()], Box::new(move |c| Ex::For(clauses.clone(), Box::new(ForBody::Yield(c[0].clone(), into.clone())))))
                }
                ForBody::YieldItem(k, v, into) => {
                    let into = into.clone();
                    (vec![k.clone(), v.clone()], Box::new(move |c| {
                        Ex::For(clauses.clone(), Box::new(ForBody::YieldItem(c[0].clone(), c[1].clone(), into.clone())))
                    }))
                }
            }
        }
        Ex::Try(body, pat, h) => {
            let pat = pat.clone();
            (vec![(**body).clone(), (**h).clone()], Box::new(move |c| Ex::Try(b(&c[0]), pat.clone(), b(&c[1]))))
        }
        Ex::Throw(x) => (vec![(**x).clone()], Box::new(|c| Ex::Throw(b(&c[0])))),
        Ex::Freeze(x) => (vec![(**x).clone()], Box::new(|c| Ex::Freeze(b(&c[0])))),
        Ex::Lambda(params, body) => {
            let params = params.clone();
            (vec![(**body).clone()], Box::new(move |c| Ex::Lambda(params.clone(), b(&c[0]))))
        }
        Ex::Switch(scrut, arms) => {
            let pats: Vec<Lv> = arms.iter().map(|(p, _)| p.clone()).collect();
            let mut ch = vec![(**scrut).clone()];
            ch.extend(arms.iter().map(|(_, x)| x.clone()));
            (ch, Box::new(move |mut c| {
                let s = c.remove(0);
                Ex::Switch(Box::new(s), pats.iter().cloned().zip(c.into_iter()).collect())
            }))
        }
        Ex::Assign(ev, l, rhs) => {
            let (ev, l) = (*ev, l.clone());
            (vec![(**rhs).clone()], Box::new(move |c| Ex::Assign(ev, l.clone(), b(&c[0]))))
        }
        Ex::OpAssign(ev, l, op, rhs) => {
            let (ev, l, op) = (*ev, l.clone(), op.clone());
            (vec![(**rhs).clone()], Box::new(move |c| Ex::OpAssign(ev, l.clone(), op.clone(), b(&c[0]))))
        }
        Ex::Return(Some(x)) => (vec![(**x).clone()], Box::new(|c| Ex::Return(Some(b(&c[0]))))),
        Ex::Break(n, Some(x)) => {
            let n = *n;
            (vec![(**x).clone()], Box::new(move |c| Ex::Break(n, Some(b(&c[0])))))
        }
        other => {
            let o = other.clone();
            (vec![], Box::new(move |_| o.clone()))
        }
    }
}

/// simplifications of the node itself
fn local_simpl(e: &Ex) -> Vec<Ex> {
    let mut out = Vec::new();
    match e {
        Ex::List(xs) | Ex::CommaSeq(xs) => {
            for i in 0..xs.len() {
                let mut ys = xs.clone();
                ys.remove(i);
                out.push(if let Ex::List(_) = e { Ex::List(ys) } else { Ex::CommaSeq(ys) });
            }
        }
        Ex::Dict(def, kvs) => {
            if def.is_some() {
                out.push(Ex::Dict(None, kvs.clone()));
            }
            for i in 0..kvs.len() {
                let mut ys = kvs.clone();
                ys.remove(i);
                out.push(Ex::Dict(def.clone(), ys));
            }
        }
        Ex::Seq(xs, t) => {
            if xs.len() == 1 {
                out.push(xs[0].clone());
            }
            if xs.len() > 1 {
                for i in 0..xs.len() {
                    let mut ys = xs.clone();
                    ys.remove(i);
                    out.push(Ex::Seq(ys, *t));
                }
            }
        }
        Ex::If(c, a, b) => {
            out.push((**a).clone());
            if let Some(b) = b {
                out.push((**b).clone());
                out.push(Ex::If(c.clone(), a.clone(), None));
            }
            out.push((**c).clone());
        }
        Ex::While(_, body) => out.push((**body).clone()),
        Ex::For(clauses, body) => {
            if clauses.len() > 1 {
                for i in 0..clauses.len() {
                    let mut cs = clauses.clone();
                    cs.remove(i);
                    out.push(Ex::For(cs, body.clone()));
                }
            }
            if let ForBody::Yield(x, Some(_)) = &**body {
                out.push(Ex::For(clauses.clone(), Box::new(ForBody::Yield(x.clone(), None))));
            }
        }
        Ex::Try(body, _, h) => {
            out.push((**body).clone());
            out.push((**h).clone());
        }
        Ex::Switch(scrut, arms) => {
            if arms.len() > 1 {
                for i in 0..arms.len() {
                    let mut a2 = arms.clone();
                    a2.remove(i);
                    out.push(Ex::Switch(scrut.clone(), a2));
                }
            }
            for (_, body) in arms {
                out.push(body.clone());
            }
        }
        Ex::Bin(l, _, r) | Ex::And(l, r) | Ex::Or(l, r) | Ex::Coalesce(l, r) => {
            out.push((**l).clone());
            out.push((**r).clone());
        }
        Ex::Chain(first, rest) => {
            if rest.len() > 1 {
                let mut r2 = rest.clone();
                r2.pop();
                out.push(Ex::Chain(first.clone(), r2));
            }
            out.push((**first).clone());
        }
        Ex::Index(x, _) | Ex::Slice(x, _, _) => out.push((**x).clone()),
        Ex::Call(_, args) => {
            for a in args {
                out.push(a.clone());
            }
        }
        Ex::Num(NumLit::Int(n)) if *n != 0 && *n != 1 => {
            out.push(Ex::Num(NumLit::Int(0)));
            out.push(Ex::Num(NumLit::Int(1)));
        }
        Ex::Num(NumLit::Pow2(_)) | Ex::Num(NumLit::Big(_)) => out.push(Ex::Num(NumLit::Int(1))),
        Ex::Str(s) if s.len() > 1 => out.push(Ex::Str("a".to_string())),
        Ex::EvalOf(x) => out.push((**x).clone()),
        Ex::Return(Some(x)) | Ex::Break(_, Some(x)) | Ex::Throw(x) => out.push((**x).clone()),
        _ => {}
    }
    // a literal in place of a compound expression
    if !matches!(e, Ex::Num(_) | Ex::Null | Ex::Str(_) | Ex::Var(_) | Ex::Assign(..) | Ex::OpAssign(..) | Ex::StructDef(..) | Ex::Swap(..)) {
        out.push(Ex::Num(NumLit::Int(0)));
    }
    out
}

/// every variant of `e` in which exactly one node has been replaced by one of its simplifications,
/// outermost nodes first
fn shrink_ex(e: &Ex) -> Vec<Ex> {
    let mut out = local_simpl(e);
    let (children, rebuild) = parts(e);
    for i in 0..children.len() {
        for c in shrink_ex(&children[i]) {
            let mut ch = children.clone();
            ch[i] = c;
            out.push(rebuild(ch));
            if out.len() > 400 {
                return out;
            }
        }
    }
    out
}

pub fn minimise(script: &Script, v: &Violation, budget: usize) -> (Script, Violation) {
    if let Some(case) = &script.alloc {
        let small = crate::alloc::minimise(case);
        let s2 = Script {
            cfg: script.cfg.clone(),
            stmts: Vec::new(),
            alloc: Some(small),
        };
        return match still_fails(&s2, &class_of(v)) {
            Some(nv) => (s2, nv),
            None => (script.clone(), v.clone()),
        };
    }
    let class = class_of(v);
    let mut best = script.clone();
    // nothing after the failing statement matters
    best.stmts.truncate(v.stmt_index + 1);
    let mut best_v = match still_fails(&best, &class) {
        Some(v) => v,
        None => return (script.clone(), v.clone()),
    };
    let mut tries = 0usize;

    // 1. configuration: prefer the default hasher / writer configuration
    let defaults = RunCfg::default();
    let mut cands: Vec<RunCfg> = Vec::new();
    {
        let mut c = best.cfg.clone();
        c.key_hash_mode = 0;
        cands.push(c);
        let mut c = best.cfg.clone();
        c.hash_shared = false;
        cands.push(c);
        let mut c = best.cfg.clone();
        c.hash_seed = defaults.hash_seed;
        cands.push(c);
        let mut c = best.cfg.clone();
        c.allow_redecl = false;
        cands.push(c);
        let mut c = best.cfg.clone();
        c.short_writes = false;
        c.eintr_every = 0;
        c.refuse_with_zero = false;
        cands.push(c);
    }
    for c in cands {
        let mut cand = best.clone();
        cand.cfg = RunCfg { fuel: best.cfg.fuel, ..c };
        tries += 1;
        if let Some(nv) = still_fails(&cand, &class) {
            best = cand;
            best_v = nv;
        }
    }

    // 2. ddmin over statements (the last statement is the failing one and stays)
    let mut chunk = (best.stmts.len() / 2).max(1);
    loop {
        let mut changed = false;
        let mut start = 0;
        while start + 1 < best.stmts.len() && tries < budget {
            let end = (start + chunk).min(best.stmts.len() - 1);
            let mut cand = best.clone();
            cand.stmts.drain(start..end);
            tries += 1;
            match still_fails(&cand, &class) {
                Some(nv) => {
                    best = cand;
                    best.stmts.truncate(nv.stmt_index + 1);
                    best_v = nv;
                    changed = true;
                }
                None => start = end,
            }
        }
        if tries >= budget {
            break;
        }
        if chunk == 1 {
            if !changed {
                break;
            }
        } else {
            chunk = (chunk / 2).max(1);
        }
    }

    // 3. drop faults
    for i in 0..best.stmts.len() {
        if !best.stmts[i].faults.is_empty() && tries < budget {
            let mut cand = best.clone();
            cand.stmts[i].faults.clear();
            tries += 1;
            if let Some(nv) = still_fails(&cand, &class) {
                best = cand;
                best_v = nv;
            }
        }
    }

    // 4. shrink literals / sub-expressions
    let mut progress = true;
    while progress && tries < budget {
        progress = false;
        let mut i = 0;
        while i < best.stmts.len() {
            let cands = shrink_ex(&best.stmts[i].ex);
            for c in cands {
                if tries >= budget {
                    break;
                }
                let mut cand = best.clone();
                if i >= cand.stmts.len() {
                    break;
                }
                cand.stmts[i].ex = c;
                tries += 1;
                if let Some(nv) = still_fails(&cand, &class) {
                    if nv.stmt_index + 1 == cand.stmts.len() || nv.stmt_index < cand.stmts.len() {
                        best = cand;
                        best.stmts.truncate(nv.stmt_index + 1);
                        best_v = nv;
                        progress = true;
                        break;
                    }
                }
            }
            i += 1;
        }
    }
    (best, best_v)
}
