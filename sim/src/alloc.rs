// Profile `alloc` (C02): workload families W(n) -- a setup phase builds collections of size ~n,
// optionally aliased at seed-chosen moments, then k = n in-place-eligible mutation statements run.
// Each family is executed at n, 2n and 4n on the real interpreter and the bytes requested from the
// global allocator during the mutation phase are measured (seam S5). In-place mutation means
// O(n + k) bytes in total; a hidden copy per statement means O(n * k).

use crate::rng::Rng;
use crate::seams;
use noulith::{evaluate, initialize, parse, verif_hooks, Env, Rc, RefCell, TopEnv};
use serde::{Deserialize, Serialize};
use std::panic::{catch_unwind, AssertUnwindSafe};

#[derive(Clone, Debug, Serialize, Deserialize, PartialEq)]
pub struct AllocCase {
    pub hash_seed: u64,
    pub n0: u64,
    /// executed once; `{N}` is replaced by the size
    pub setup: Vec<String>,
    /// cycled k = n times; `{I}` is the iteration index, `{N}` the size
    pub mutate: Vec<String>,
    /// (position as a fraction of k in 1/16ths, statement): alias creation / destruction and failing
    /// statements placed in the middle of the mutation phase
    pub events: Vec<(u32, String)>,
    pub family: String,
}

#[derive(Clone, Debug, Serialize, Deserialize)]
pub struct AllocMeasure {
    pub n: u64,
    pub bytes: u64,
    pub allocs: u64,
    pub raised: u64,
}

fn subst(t: &str, n: u64, i: u64) -> String {
    t.replace("{N}", &n.to_string()).replace("{I}", &i.to_string())
}

/// None = the case could not be measured (setup raised, parse error): never a violation
pub fn measure(case: &AllocCase, n: u64) -> Result<AllocMeasure, String> {
    verif_hooks::set_key_hash_mode(0);
    verif_hooks::set_hash_seed(case.hash_seed, false);
    verif_hooks::set_fuel(None);
    verif_hooks::set_fault_after(None);
    // the scope registry (hook H3) is a growing vector: start every measurement with an empty one,
    // so that its reallocations are the same whatever ran on this thread before
    verif_hooks::release_envs();
    let mut env = Env::new(
        TopEnv {
            backrefs: Vec::new(),
            input: Box::new(std::io::empty()),
            output: Box::new(std::io::sink()),
        },
        false,
    );
    initialize(&mut env);
    let env = Rc::new(RefCell::new(env));
    let run = |src: &str, counted: bool| -> Result<bool, String> {
        let expr = match parse(src) {
            Ok(Some(e)) => e,
            Ok(None) => return Err(format!("empty parse: {}", src)),
            Err(e) => return Err(format!("unparsable: {} :: {}", src, e.render(src))),
        };
        verif_hooks::set_fuel(Some(50_000_000));
        if counted {
            seams::alloc_counting(true);
        }
        let r = catch_unwind(AssertUnwindSafe(|| evaluate(&env, &expr)));
        seams::alloc_counting(false);
        verif_hooks::set_fuel(None);
        match r {
            Ok(Ok(_)) => Ok(true),
            Ok(Err(_)) => Ok(false),
            Err(_) => Err(format!("panic in {}", src)),
        }
    };
    let result = (|| {
        for s in case.setup.iter() {
            if !run(&subst(s, n, 0), false)? {
                return Err(format!("setup statement raised: {}", subst(s, n, 0)));
            }
        }
        seams::alloc_reset();
        let k = n;
        let mut raised = 0u64;
        let mut ev: Vec<(u64, &String)> = case.events.iter().map(|(f, s)| ((*f as u64) * k / 16, s)).collect();
        ev.sort_by_key(|e| e.0);
        let mut next_ev = 0;
        for i in 0..k {
            while next_ev < ev.len() && ev[next_ev].0 <= i {
                // events are part of the measured phase (the copy caused by an alias is what the
                // per-holder clause is about)
                if !run(&subst(ev[next_ev].1, n, i), true)? {
                    raised += 1;
                }
                next_ev += 1;
            }
            let t = &case.mutate[(i as usize) % case.mutate.len()];
            if !run(&subst(t, n, i), true)? {
                raised += 1;
            }
        }
        Ok(AllocMeasure {
            n,
            bytes: seams::alloc_bytes(),
            allocs: seams::alloc_count(),
            raised,
        })
    })();
    // break the Rc cycles of the session
    if let Ok(mut e) = env.try_borrow_mut() {
        e.vars.clear();
    }
    verif_hooks::release_envs();
    result
}

pub const SLOPE_LIMIT: f64 = 1.35;

#[derive(Clone, Debug, Serialize, Deserialize)]
pub struct AllocVerdict {
    pub measures: Vec<AllocMeasure>,
    pub slope: f64,
    pub violation: bool,
}

pub fn check(case: &AllocCase) -> Result<AllocVerdict, String> {
    let mut ms = Vec::new();
    for mult in [1u64, 2, 4] {
        ms.push(measure(case, case.n0 * mult)?);
    }
    // statements that raise unexpectedly make the family meaningless
    let allowed = case.events.iter().filter(|(_, s)| s.contains("boom")).count() as u64;
    if ms.iter().any(|m| m.raised > allowed) {
        return Err("mutation statements raised".to_string());
    }
    let b1 = ms[0].bytes.max(1) as f64;
    let b4 = ms[2].bytes.max(1) as f64;
    let slope = (b4 / b1).ln() / 4f64.ln();
    Ok(AllocVerdict {
        violation: slope > SLOPE_LIMIT,
        slope,
        measures: ms,
    })
}

pub fn generate(seed: u64) -> AllocCase {
    let mut rng = Rng::new(seed ^ 0xa110c);
    let n0 = *rng.pick(&[256u64, 384, 512, 768, 1024]);
    let family = *rng.pick(&[
        "list", "list", "rows", "dict", "vector", "bytes", "field", "dict-default", "two-lists", "wide-rows",
        "dict-of-lists", "dict-of-sets", "user-op",
    ]);
    let mut setup: Vec<String> = Vec::new();
    let mut pool: Vec<&str> = Vec::new();
    let var = "x";
    match family {
        "list" => {
            setup.push("x := [0] ** {N}".into());
            pool = vec![
                "x append= {I}",
                "x[{I}] = {I}",
                "x[{I}] += 1",
                "x ++= [{I}]",
                "x[(0-1)] = 3",
                "x +.= {I}",
                "x[{I}] max= 7",
                "x |..= [{I}, 5]",
                "swap x[{I}], x[0]",
                "swap x[0], x[(0-1)]",
            ];
        }
        "two-lists" => {
            setup.push("x := [0] ** {N}".into());
            setup.push("w := [1] ** {N}".into());
            pool = vec!["x append= w[{I}]", "w[{I}] = x[{I}]", "x[{I}] += w[{I}]", "w append= {I}"];
        }
        "rows" => {
            setup.push("x := (0 til {N}) map (\\i -> [i, 0, 0, 0])".into());
            pool = vec!["x[{I}][1] = {I}", "x[{I}][2] += 1", "x[{I}] append= 5", "x[{I}][0] max= 3"];
        }
        "wide-rows" => {
            // few rows of size ~2n: the row, not the outer list, is what a hidden copy would cost
            setup.push("x := [[0] ** (2 * {N}), [1] ** (2 * {N})]".into());
            pool = vec![
                "pop x[0]",
                "remove x[1][(0-1)]",
                "x[0] append= {I}",
                "x[1][{I}] = 2",
                "x[0][{I}] += 1",
                "x[1] ++= [{I}]",
                "swap x[0][{I}], x[0][0]",
            ];
        }
        "dict-of-lists" => {
            setup.push("x := {\"a\": [0] ** (2 * {N}), \"b\": [1] ** (2 * {N})}".into());
            pool = vec![
                "x[\"a\"] append= {I}",
                "x[\"b\"][{I}] = 3",
                "x[\"a\"][{I}] += 1",
                "pop x[\"b\"]",
                "x[\"a\"] ++= [{I}]",
                "x ||++= {\"a\": [{I}]}",
                "x ||++= {\"b\": [{I}, 1], \"a\": []}",
            ];
        }
        "user-op" => {
            // a user-written function as the operator of an operator-assignment: the variable is
            // handed to the callee as the only holder, the callee mutates its parameter and
            // returns it; also through a struct field
            setup.push("struct Holder (elems, tag = 0)".into());
            setup.push("push := \\s, v -> (s append= v; s)".into());
            setup.push("setat := \\s, v -> (s[v] = 1; s)".into());
            setup.push("pushf := \\s, v -> (s[elems] append= v; s)".into());
            setup.push("x := [0] ** {N}".into());
            setup.push("h := Holder([0] ** {N})".into());
            pool = vec!["x push= {I}", "x setat= {I}", "h pushf= {I}", "x[0] max= {I}"];
        }
        "dict-of-sets" => {
            setup.push("x := {0: {}, 1: {}}".into());
            setup.push("for (i <- 0 til {N}) x[0] |.= i".into());
            pool = vec!["x[0] |.= ({I} + {N})", "x[1] |.= {I}", "x[0] -.= ({I} + 2 * {N})", "x[1] ||= {({I} + {N}): 1}"];
        }
        "dict" => {
            setup.push("x := {}".into());
            setup.push("for (i <- 0 til {N}) x[i] = i".into());
            pool = vec![
                "x[{I}] = 1",
                "x[{I}] += 1",
                "x |.= ({I} + {N})",
                "x -.= ({I} + {N})",
                "x ||= {({I} + 2 * {N}): 1}",
                "x insert= [{I}, 4]",
                "remove x[{I}]",
            ];
        }
        "dict-default" => {
            setup.push("x := {:0}".into());
            setup.push("for (i <- 0 til {N}) x[i] = i".into());
            pool = vec!["x[{I}] += 1", "x[{I} + {N}] += 1", "x[{I}] = 2", "x[{I}] max= 9"];
        }
        "vector" => {
            setup.push("x := vector([0] ** {N})".into());
            pool = vec!["x[{I}] = 5", "x append= 1", "x[{I}] = {I}"];
        }
        "bytes" => {
            setup.push("x := bytes([0] ** {N})".into());
            pool = vec!["x[{I}] = 7", "x append= 1", "x[{I}] = ({I} % 256)"];
        }
        _ => {
            // struct field holding a list
            setup.push("struct Holder (elems, tag = 0)".into());
            setup.push("x := Holder([0] ** {N})".into());
            pool = vec!["x[elems][{I}] = 1", "x[elems] append= {I}", "x[elems][{I}] += 2", "x[tag] = {I}"];
        }
    }
    let n_t = 1 + rng.below(pool.len().min(4));
    let mut mutate: Vec<String> = Vec::new();
    for _ in 0..n_t {
        mutate.push(rng.pick(&pool).to_string());
    }
    // pop / remove-at-end only where the list has grown first
    if (family == "list" || family == "two-lists") && rng.chance(1, 3) {
        mutate.push("x append= 0".into());
        mutate.push(if rng.chance(1, 2) { "pop x".to_string() } else { "remove x[(0-1)]".to_string() });
    }
    // alias events: each additional holder may cost one copy, after which mutation is in place again
    let mut events: Vec<(u32, String)> = Vec::new();
    let n_alias = rng.below(3);
    for a in 0..n_alias {
        let at = 1 + rng.below(12) as u32;
        if a == 0 {
            events.push((at, format!("alias{} := {}", a, var)));
        } else {
            events.push((at, format!("alias{} := [{}, 1]", a, var)));
        }
        if rng.chance(1, 2) {
            events.push((at + 1 + rng.below(3) as u32, format!("alias{} = null", a)));
        }
    }
    // a statement that fails inside the operator: must not leave a hidden extra holder
    if rng.chance(1, 3) {
        let at = 1 + rng.below(14) as u32;
        events.push((at, "boom := \\a, b -> throw \"boom\"".to_string()));
        events.push((at, format!("{} boom= 1", var)));
        // the op-assign nulled the variable before the operator failed: restore a value of size n
        events.push((at, format!("{} = {}", var, restore_expr(family))));
    }
    AllocCase {
        hash_seed: rng.next(),
        n0,
        setup,
        mutate,
        events,
        family: family.to_string(),
    }
}

fn restore_expr(family: &str) -> &'static str {
    match family {
        "list" | "two-lists" | "user-op" => "[0] ** (2 * {N})",
        "rows" => "(0 til {N}) map (\\i -> [i, 0, 0, 0])",
        "wide-rows" => "[[0] ** (2 * {N}), [1] ** (2 * {N})]",
        "dict-of-lists" => "{\"a\": [0] ** (2 * {N}), \"b\": [1] ** (2 * {N})}",
        "dict-of-sets" => "{0: (for (i <- 0 til {N}) yield i: null), 1: {}}",
        "dict" => "(for (i <- 0 til {N}) yield i: i)",
        "dict-default" => "({:0} || (for (i <- 0 til {N}) yield i: i))",
        "vector" => "vector([0] ** (2 * {N}))",
        "bytes" => "bytes([0] ** (2 * {N}))",
        _ => "Holder([0] ** (2 * {N}))",
    }
}

/// drop templates and events while the violation persists
pub fn minimise(case: &AllocCase) -> AllocCase {
    let mut best = case.clone();
    let still = |c: &AllocCase| matches!(check(c), Ok(v) if v.violation);
    let mut changed = true;
    while changed {
        changed = false;
        for i in 0..best.events.len() {
            let mut c = best.clone();
            c.events.remove(i);
            if still(&c) {
                best = c;
                changed = true;
                break;
            }
        }
        if changed {
            continue;
        }
        if best.mutate.len() > 1 {
            for i in 0..best.mutate.len() {
                let mut c = best.clone();
                c.mutate.remove(i);
                if still(&c) {
                    best = c;
                    changed = true;
                    break;
                }
            }
        }
    }
    best
}
