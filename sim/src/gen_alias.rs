// Profile `alias` (C01): histories of mutation statements over deliberately aliased values.

use crate::gen_common::*;
use crate::ir::*;
use crate::rng::Rng;
use crate::run::{Fault, RunCfg, Script};
use crate::val::*;

pub struct AliasOut {
    pub script: Script,
    pub kinds: Vec<String>,
    pub nontrivial: bool,
}

fn struct_list(g: &Gen) -> Vec<(String, usize)> {
    g.model.structs.iter().map(|s| (s.name.clone(), s.fields.len())).collect()
}

/// an expression that aliases existing data: a variable, part of one, or a container built from them
fn alias_expr(g: &mut Gen, depth: usize) -> Ex {
    let vars = g.data_vars();
    let structs = struct_list(g);
    if vars.is_empty() || g.rng.chance(1, 6) {
        return g.value(depth, &structs);
    }
    let (name, v) = g.rng.pick(&vars).clone();
    let names = g.model.struct_names();
    let fields_of = {
        let structs = g.model.structs.clone();
        move |sid: usize| structs[sid].fields.iter().map(|f| f.0.clone()).collect::<Vec<_>>()
    };
    match g.rng.below(8) {
        0 | 1 => var(&name),
        2 => Ex::List(vec![var(&name), var(&name)]),
        3 => {
            let other = g.value(1, &structs);
            if g.rng.chance(1, 2) {
                Ex::List(vec![var(&name), other])
            } else {
                Ex::List(vec![other, var(&name)])
            }
        }
        4 => {
            let k = g.key_lit();
            Ex::Dict(None, vec![(k, Some(var(&name)))])
        }
        5 => {
            // a part of the variable
            let (path, _, kind) = random_path(&mut g.rng, &v, 2, &fields_of, &names);
            if kind != SlotKind::Free && g.rng.chance(1, 2) {
                return var(&name);
            }
            let mut e = var(&name);
            for ix in path {
                e = match ix {
                    Ix::Index(i) => Ex::Index(Box::new(e), Box::new(i)),
                    Ix::Slice(a, b) => Ex::Slice(Box::new(e), a.map(Box::new), b.map(Box::new)),
                };
            }
            e
        }
        6 => {
            // functional update x{k = v}: must not write through to x
            match &v {
                V::List(xs) if !xs.is_empty() => {
                    let i = g.rng.below(xs.len()) as i64;
                    let nv = g.value(1, &structs);
                    Ex::Update(Box::new(var(&name)), vec![(int(i), nv)])
                }
                V::Dict(_) => {
                    let k = g.key_lit();
                    let nv = g.value(1, &structs);
                    Ex::Update(Box::new(var(&name)), vec![(k, nv)])
                }
                _ => var(&name),
            }
        }
        _ => {
            if let Some((sname, nf)) = structs.first().cloned() {
                let mut args = vec![var(&name)];
                for _ in 1..nf {
                    args.push(g.value(1, &structs));
                }
                args.truncate(nf);
                Ex::Call(Box::new(var(&sname)), args)
            } else {
                Ex::List(vec![var(&name)])
            }
        }
    }
}

fn slice_ix(rng: &mut Rng, len: usize) -> Ix {
    let lo = rng.range(-(len as i64) - 1, len as i64 + 1);
    let hi = rng.range(-(len as i64) - 1, len as i64 + 1);
    match rng.below(4) {
        0 => Ix::Slice(None, None),
        1 => Ix::Slice(Some(int(lo)), None),
        2 => Ix::Slice(None, Some(int(hi))),
        _ => Ix::Slice(Some(int(lo)), Some(int(hi))),
    }
}

fn rhs_for_slot(g: &mut Gen, kind: &SlotKind, ill: bool) -> Ex {
    if ill {
        return alias_expr(g, 1);
    }
    match kind {
        SlotKind::Free => alias_expr(g, 2),
        // mostly one byte; sometimes one multi-byte character, two characters or none (refused)
        SlotKind::StrByte => Ex::Str(g.rng.pick(&["a", "z", "Q", "0", "a", "z", "é", "λ", "ab", ""]).to_string()),
        SlotKind::VecElem => int(g.rng.range(0, 9)),
        SlotKind::ByteElem => int(g.rng.range(0, 255)),
    }
}

/// (operator, rhs) suitable for the current value of the slot
fn op_for(g: &mut Gen, cur: &V, user_ops: &[String]) -> Option<(String, Ex)> {
    let structs = struct_list(g);
    if !user_ops.is_empty() && g.rng.chance(1, 6) {
        let op = g.rng.pick(user_ops).clone();
        let rhs = g.value(1, &structs);
        return Some((op, rhs));
    }
    Some(match cur {
        V::Int(_) => {
            let op = g.rng.pick(&["+", "-", "*", "max", "min", "//", "%"]).to_string();
            (op, g.small_int())
        }
        V::List(_) => match g.rng.below(4) {
            0 | 1 => ("append".to_string(), alias_expr(g, 1)),
            2 => ("+.".to_string(), alias_expr(g, 1)),
            _ => {
                let n = g.rng.below(3);
                ("++".to_string(), Ex::List((0..n).map(|_| g.value(1, &structs)).collect()))
            }
        },
        V::Str(_) => ("$".to_string(), if g.rng.chance(1, 2) { g.string() } else { int(g.rng.range(0, 99)) }),
        V::Dict(_) => match g.rng.below(4) {
            0 => {
                let k = g.key_lit();
                let v = g.value(1, &structs);
                ("||".to_string(), Ex::Dict(None, vec![(k, Some(v))]))
            }
            1 => ("|.".to_string(), g.key_lit()),
            2 => ("-.".to_string(), g.key_lit()),
            _ => {
                let k = g.key_lit();
                let v = alias_expr(g, 1);
                ("|..".to_string(), Ex::List(vec![k, v]))
            }
        },
        V::Vector(_) => ("append".to_string(), int(g.rng.range(0, 9))),
        V::Bytes(_) => ("append".to_string(), int(g.rng.range(0, 255))),
        _ => return None,
    })
}

pub fn generate(seed: u64, fault_free: bool) -> AliasOut {
    let mut pre = Rng::new(seed ^ 0xa11a5);
    let cfg = RunCfg {
        hash_seed: pre.next(),
        hash_shared: pre.chance(1, 5),
        key_hash_mode: if fault_free { 0 } else { *pre.pick(&[0u8, 0, 0, 1, 2]) },
        allow_redecl: pre.chance(1, 4),
        strict_termination: true,
        ..RunCfg::default()
    };
    let mut g = Gen::new(seed, cfg);
    if !fault_free && g.rng.chance(1, 2) {
        g.cancel_den = 8 + g.rng.below(12) as u32;
    }
    let n_stmts = 6 + g.rng.below(30);
    let ill_rate: u32 = if fault_free { 0 } else { 1 + g.rng.below(3) as u32 };
    let mut user_ops: Vec<String> = Vec::new();
    let mut mutators: Vec<String> = Vec::new();
    let mut cells: Vec<(String, String)> = Vec::new(); // (getter, setter)

    // optional struct declaration
    if g.rng.chance(1, 3) {
        let ex = Ex::StructDef("Pt".to_string(), vec![("px".to_string(), None), ("py".to_string(), Some(int(7)))]);
        if g.push("struct", ex, vec![]).is_err() {
            return finish(g);
        }
    }

    // a few initial variables
    let n_vars = 2 + g.rng.below(4);
    for _ in 0..n_vars {
        let name = g.fresh("v");
        let structs = struct_list(&g);
        let e = g.value(3, &structs);
        if g.push("declare", declare(&name, e), vec![]).is_err() {
            return finish(g);
        }
    }

    while g.script.stmts.len() < n_stmts {
        let ill = ill_rate > 0 && g.rng.chance(ill_rate, 12);
        let vars = g.data_vars();
        if vars.is_empty() {
            break;
        }
        let names = g.model.struct_names();
        let fields_of = {
            let structs = g.model.structs.clone();
            move |sid: usize| structs[sid].fields.iter().map(|f| f.0.clone()).collect::<Vec<_>>()
        };
        let choice = g.rng.weighted(&[8, 6, 14, 14, 6, 5, 4, 4, 4, 5, 4, 3, 3, 3, 4]);
        let r = match choice {
            0 => {
                // declare with an alias
                let name = g.fresh("v");
                let e = alias_expr(&mut g, 2);
                g.push("declare-alias", declare(&name, e), vec![])
            }
            1 => {
                let (name, _) = g.rng.pick(&vars).clone();
                let e = alias_expr(&mut g, 2);
                g.push("assign", Ex::Assign(false, Box::new(lv(&name)), Box::new(e)), vec![])
            }
            2 => {
                // index assignment
                let (name, v) = g.rng.pick(&vars).clone();
                let (mut path, _, kind) = random_path(&mut g.rng, &v, 3, &fields_of, &names);
                if path.is_empty() {
                    continue;
                }
                if ill {
                    // out-of-range / missing index at the last step
                    let last = path.len() - 1;
                    path[last] = Ix::Index(int(g.rng.range(7, 12) * if g.rng.chance(1, 2) { 1 } else { -1 }));
                }
                let rhs = rhs_for_slot(&mut g, &kind, ill);
                g.push(
                    "index-assign",
                    Ex::Assign(false, Box::new(Lv::Ident(name, path)), Box::new(rhs)),
                    vec![],
                )
            }
            3 => {
                // operator assignment on a variable or a slot
                let (name, v) = g.rng.pick(&vars).clone();
                let (path, cur, kind) = random_path(&mut g.rng, &v, 2, &fields_of, &names);
                if kind != SlotKind::Free {
                    continue;
                }
                match op_for(&mut g, &cur, &user_ops) {
                    Some((op, rhs)) => {
                        let rhs = if ill { g.string() } else { rhs };
                        // sometimes the right-hand side itself mutates the left-hand variable: the
                        // documented order is read LHS, evaluate RHS, null the slot, call, write back
                        let rhs = if g.rng.chance(1, 8) {
                            match (&v, g.rng.below(3)) {
                                (V::List(xs), 0) if !xs.is_empty() && path.is_empty() => {
                                    Ex::List(vec![Ex::Pop(Box::new(lv(&name)))])
                                }
                                (_, 1) if path.is_empty() => {
                                    let nv = alias_expr(&mut g, 1);
                                    Ex::Seq(
                                        vec![Ex::Assign(false, Box::new(lv(&name)), Box::new(nv)), rhs],
                                        false,
                                    )
                                }
                                _ => rhs,
                            }
                        } else {
                            rhs
                        };
                        g.push(
                            "op-assign",
                            Ex::OpAssign(false, Box::new(Lv::Ident(name, path)), op, Box::new(rhs)),
                            vec![],
                        )
                    }
                    None => continue,
                }
            }
            4 => {
                // every-assignment over a slice / several variables
                let (name, v) = g.rng.pick(&vars).clone();
                match &v {
                    V::List(xs) => {
                        let ix = slice_ix(&mut g.rng, xs.len());
                        if ill && g.rng.chance(1, 2) {
                            // without `every` (documented as unimplemented): must raise, not crash,
                            // and must not change anything
                            let rhs = alias_expr(&mut g, 1);
                            if g.rng.chance(1, 2) {
                                g.push(
                                    "slice-assign-no-every",
                                    Ex::Assign(false, Box::new(Lv::Ident(name, vec![ix])), Box::new(rhs)),
                                    vec![],
                                )
                            } else {
                                g.push(
                                    "slice-op-assign-no-every",
                                    Ex::OpAssign(false, Box::new(Lv::Ident(name, vec![ix])), "++".into(), Box::new(rhs)),
                                    vec![],
                                )
                            }
                        } else if g.rng.chance(1, 4) {
                            // a slice followed by a further index: every selected element is
                            // written at that index, the elements themselves stay
                            let rhs = alias_expr(&mut g, 1);
                            let k = int(g.rng.range(-1, 1));
                            g.push(
                                "every-assign-below-slice",
                                Ex::Assign(true, Box::new(Lv::Ident(name, vec![ix, Ix::Index(k)])), Box::new(rhs)),
                                vec![],
                            )
                        } else if g.rng.chance(1, 2) {
                            let rhs = alias_expr(&mut g, 1);
                            g.push(
                                "every-assign",
                                Ex::Assign(true, Box::new(Lv::Ident(name, vec![ix])), Box::new(rhs)),
                                vec![],
                            )
                        } else if xs.iter().all(|x| matches!(x, V::Int(_))) || (!fault_free && g.rng.chance(1, 2)) {
                            // heterogeneous slices make the operator fail half-way: the variable must
                            // be left untouched (the update works on a copy)
                            let rhs = g.small_int();
                            let op = if !user_ops.is_empty() && g.rng.chance(1, 4) {
                                g.rng.pick(&user_ops).clone()
                            } else {
                                g.rng.pick(&["+", "*", "max", "//"]).to_string()
                            };
                            g.push(
                                "every-op-assign",
                                Ex::OpAssign(true, Box::new(Lv::Ident(name, vec![ix])), op, Box::new(rhs)),
                                vec![],
                            )
                        } else {
                            let rhs = alias_expr(&mut g, 1);
                            g.push(
                                "every-op-assign",
                                Ex::OpAssign(
                                    true,
                                    Box::new(Lv::Ident(name, vec![ix])),
                                    "..".to_string(),
                                    Box::new(rhs),
                                ),
                                vec![],
                            )
                        }
                    }
                    _ => {
                        if vars.len() >= 2 {
                            let a = g.rng.pick(&vars).0.clone();
                            let b = g.rng.pick(&vars).0.clone();
                            let rhs = alias_expr(&mut g, 1);
                            g.push(
                                "every-multi",
                                Ex::Assign(true, Box::new(Lv::Seq(vec![lv(&a), lv(&b)], false)), Box::new(rhs)),
                                vec![],
                            )
                        } else {
                            continue;
                        }
                    }
                }
            }
            5 => {
                // pop / remove
                let (name, v) = g.rng.pick(&vars).clone();
                let (path, cur, kind) = random_path(&mut g.rng, &v, 2, &fields_of, &names);
                if kind != SlotKind::Free {
                    continue;
                }
                let target = g.fresh("v");
                match &cur {
                    V::List(xs) => {
                        if g.rng.chance(1, 2) {
                            g.push(
                                "pop",
                                declare(&target, Ex::Pop(Box::new(Lv::Ident(name, path)))),
                                vec![],
                            )
                        } else {
                            let mut p2 = path.clone();
                            if g.rng.chance(1, 3) {
                                p2.push(slice_ix(&mut g.rng, xs.len()));
                            } else {
                                let n = xs.len() as i64;
                                let i = if ill || n == 0 { g.rng.range(-9, 9) } else { g.rng.range(-n, n - 1) };
                                p2.push(Ix::Index(int(i)));
                            }
                            g.push(
                                "remove",
                                declare(&target, Ex::Remove(Box::new(Lv::Ident(name, p2)))),
                                vec![],
                            )
                        }
                    }
                    V::Dict(d) => {
                        let mut p2 = path.clone();
                        let k = if !d.entries.is_empty() && !ill {
                            let i = g.rng.below(d.entries.len());
                            match value_to_ex(&d.entries[i].0, &names) {
                                Some(k) => k,
                                None => continue,
                            }
                        } else {
                            g.key_lit()
                        };
                        p2.push(Ix::Index(k));
                        g.push(
                            "remove-key",
                            declare(&target, Ex::Remove(Box::new(Lv::Ident(name, p2)))),
                            vec![],
                        )
                    }
                    _ => {
                        if ill {
                            g.push("pop-ill", declare(&target, Ex::Pop(Box::new(Lv::Ident(name, path)))), vec![])
                        } else {
                            continue;
                        }
                    }
                }
            }
            6 => {
                // swap two slots
                let (a, av) = g.rng.pick(&vars).clone();
                let (b, bv) = g.rng.pick(&vars).clone();
                let (pa, _, ka) = random_path(&mut g.rng, &av, 2, &fields_of, &names);
                let (pb, _, kb) = random_path(&mut g.rng, &bv, 2, &fields_of, &names);
                if ka != SlotKind::Free || kb != SlotKind::Free {
                    continue;
                }
                g.push(
                    "swap",
                    Ex::Swap(Box::new(Lv::Ident(a, pa)), Box::new(Lv::Ident(b, pb))),
                    vec![],
                )
            }
            7 => {
                // consume
                let (name, v) = g.rng.pick(&vars).clone();
                let (path, _, kind) = random_path(&mut g.rng, &v, 2, &fields_of, &names);
                if kind != SlotKind::Free {
                    continue;
                }
                let target = g.fresh("v");
                g.push(
                    "consume",
                    declare(&target, Ex::Consume(Box::new(Lv::Ident(name, path)))),
                    vec![],
                )
            }
            8 => {
                // a function that mutates its parameter and returns it; the argument variable must
                // not change
                if mutators.is_empty() || g.rng.chance(1, 4) {
                    let fname = g.fresh("mut");
                    let body = match g.rng.below(3) {
                        0 => Ex::Seq(
                            vec![
                                Ex::OpAssign(false, Box::new(lv("a")), "append".to_string(), Box::new(int(99))),
                                var("a"),
                            ],
                            false,
                        ),
                        1 => Ex::Seq(
                            vec![
                                Ex::Assign(
                                    false,
                                    Box::new(Lv::Ident("a".to_string(), vec![Ix::Index(int(0))])),
                                    Box::new(int(77)),
                                ),
                                var("a"),
                            ],
                            false,
                        ),
                        _ => Ex::Seq(
                            vec![
                                Ex::Assign(false, Box::new(lv("a")), Box::new(Ex::List(vec![var("a"), var("a")]))),
                                var("a"),
                            ],
                            false,
                        ),
                    };
                    let lam = Ex::Lambda(vec![lv("a")], Box::new(body));
                    let r = g.push("declare-mutator", declare(&fname, lam), vec![]);
                    if r.is_ok() {
                        mutators.push(fname);
                    }
                    r
                } else {
                    let f = g.rng.pick(&mutators).clone();
                    let (name, _) = g.rng.pick(&vars).clone();
                    let target = g.fresh("v");
                    g.push("call-mutator", declare(&target, call(&f, vec![var(&name)])), vec![])
                }
            }
            9 => {
                // closures over a session variable: capture is by variable, not by value
                if cells.is_empty() || g.rng.chance(1, 4) {
                    let (name, _) = g.rng.pick(&vars).clone();
                    let getter = g.fresh("get");
                    let setter = g.fresh("set");
                    let r1 = g.push(
                        "declare-getter",
                        declare(&getter, Ex::Lambda(vec![], Box::new(var(&name)))),
                        vec![],
                    );
                    if r1.is_err() {
                        return finish(g);
                    }
                    let r2 = g.push(
                        "declare-setter",
                        declare(
                            &setter,
                            Ex::Lambda(
                                vec![lv("nv")],
                                Box::new(Ex::Assign(false, Box::new(lv(&name)), Box::new(var("nv")))),
                            ),
                        ),
                        vec![],
                    );
                    if r2.is_ok() {
                        cells.push((getter, setter));
                    }
                    r2
                } else {
                    let (getter, setter) = g.rng.pick(&cells).clone();
                    if g.rng.chance(1, 2) {
                        let target = g.fresh("v");
                        g.push("call-getter", declare(&target, call(&getter, vec![])), vec![])
                    } else {
                        let e = alias_expr(&mut g, 1);
                        g.push("call-setter", call(&setter, vec![e]), vec![])
                    }
                }
            }
            10 => {
                // user-defined operator for op-assign; some read the LHS variable, which must be null
                // while the operator runs
                let (name, _) = g.rng.pick(&vars).clone();
                let opname = g.fresh("op");
                let body = match g.rng.below(3) {
                    0 => Ex::List(vec![var("a"), var("b")]),
                    1 => Ex::List(vec![var("a"), var(&name)]),
                    _ => bin(Ex::List(vec![var("a")]), "++", Ex::List(vec![var("b"), var("b")])),
                };
                let r = g.push(
                    "declare-op",
                    declare(&opname, Ex::Lambda(vec![lv("a"), lv("b")], Box::new(body))),
                    vec![],
                );
                if r.is_ok() {
                    user_ops.push(opname);
                }
                r
            }
            11 => {
                // destructuring swap / rotation
                if vars.len() < 2 {
                    continue;
                }
                let a = g.rng.pick(&vars).0.clone();
                let b = g.rng.pick(&vars).0.clone();
                if a == b {
                    continue;
                }
                if g.rng.chance(1, 2) {
                    g.push(
                        "destructure",
                        Ex::Assign(
                            false,
                            Box::new(Lv::Seq(vec![lv(&a), lv(&b)], false)),
                            Box::new(Ex::CommaSeq(vec![var(&b), var(&a)])),
                        ),
                        vec![],
                    )
                } else {
                    // unpack a list variable around a splat; short lists must raise
                    // (not a dict: unpacking one follows hash order)
                    let cands: Vec<(String, V)> = vars
                        .iter()
                        .filter(|(_, v)| !matches!(v, V::Dict(_)))
                        .cloned()
                        .collect();
                    if cands.is_empty() {
                        continue;
                    }
                    let src = g.rng.pick(&cands).clone();
                    let mut targets = vec![lv(&a), lv(&b)];
                    if g.rng.chance(1, 2) {
                        let c = g.rng.pick(&vars).0.clone();
                        targets.push(lv(&c));
                    }
                    let pos = g.rng.below(targets.len());
                    let inner = targets[pos].clone();
                    targets[pos] = Lv::Splat(Box::new(inner));
                    g.push(
                        "destructure-splat",
                        Ex::Assign(false, Box::new(Lv::Seq(targets, false)), Box::new(var(&src.0))),
                        vec![],
                    )
                }
            }
            12 => {
                // loop that reads one variable and mutates another
                if vars.len() < 2 {
                    continue;
                }
                let (src, sv) = g.rng.pick(&vars).clone();
                let (dst, dv) = g.rng.pick(&vars).clone();
                if !matches!(sv, V::List(_) | V::Str(_) | V::Vector(_) | V::Bytes(_)) || !matches!(dv, V::List(_)) {
                    continue;
                }
                let body = Ex::OpAssign(false, Box::new(lv(&dst)), "append".to_string(), Box::new(var("e")));
                g.push(
                    "for-append",
                    Ex::For(vec![Clause::Each(lv("e"), var(&src))], Box::new(ForBody::Do(body))),
                    vec![],
                )
            }
            14 => {
                // "calling any function on a value bound to a variable leaves that variable's value
                // unchanged": any global builtin on one or two data variables, implementation only
                // (value or error), after which every variable must still hold the model's value
                let names = crate::gen_fault::global_names();
                let f = g.rng.pick(names).clone();
                if crate::gen_fault::SIZE_SENSITIVE.contains(&f.as_str()) {
                    continue;
                }
                let n = 1 + g.rng.below(2);
                let args: Vec<Ex> = (0..n).map(|_| var(&g.rng.pick(&vars).0.clone())).collect();
                let c = Ex::Call(Box::new(var(&f)), args);
                let e = if g.rng.chance(1, 2) {
                    Ex::Try(Box::new(c), Box::new(lv("err")), Box::new(Ex::Null))
                } else {
                    c
                };
                g.push_outcome_only("call-builtin", e, vec![], false);
                Ok(Ok(V::Null))
            }
            _ => {
                // party trick: (a and b) op= e
                if vars.len() < 2 {
                    continue;
                }
                let (a, av) = g.rng.pick(&vars).clone();
                let (b, bv) = g.rng.pick(&vars).clone();
                if a == b {
                    continue;
                }
                let (op, rhs) = match (&av, &bv) {
                    (V::Int(_), V::Int(_)) => ("+".to_string(), g.small_int()),
                    (V::List(_), V::List(_)) => ("append".to_string(), alias_expr(&mut g, 1)),
                    _ => continue,
                };
                g.push(
                    "and-op-assign",
                    Ex::OpAssign(
                        false,
                        Box::new(Lv::And(Box::new(lv(&a)), Box::new(lv(&b)))),
                        op,
                        Box::new(rhs),
                    ),
                    vec![],
                )
            }
        };
        if r.is_err() {
            break;
        }
    }
    let _ = Fault::OutUnlimited;
    finish(g)
}

fn finish(mut g: Gen) -> AliasOut {
    let nontrivial = g.kinds.iter().any(|k| {
        matches!(
            k.as_str(),
            "index-assign" | "op-assign" | "every-assign" | "every-op-assign" | "pop" | "remove" | "remove-key"
                | "swap" | "consume" | "call-mutator" | "call-setter" | "and-op-assign" | "for-append"
        )
    }) && g.kinds.iter().any(|k| matches!(k.as_str(), "declare-alias" | "assign" | "call-getter"));
    AliasOut {
        script: g.take_script(),
        kinds: std::mem::take(&mut g.kinds),
        nontrivial,
    }
}
