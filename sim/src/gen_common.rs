// Shared generator machinery. A generator runs the reference model while it generates, so every
// statement is chosen with exact knowledge of the current state (lengths, keys, kinds).

use crate::ir::*;
use crate::model::{Ctl, Model};
use crate::rng::Rng;
use crate::run::{Fault, RunCfg, Script, Stmt};
use crate::val::*;
use num::{Signed, ToPrimitive};

pub struct Gen {
    pub rng: Rng,
    pub model: Model,
    pub script: Script,
    pub next_id: usize,
    /// statement kinds emitted (for the evidence's interleaving measure)
    pub kinds: Vec<String>,
    /// did the generated script contain at least one "non-trivial" event for its profile
    pub nontrivial: bool,
    pub rejected: u64,
    /// why the model declined candidate statements (generation stops at the first one)
    pub declined: Vec<String>,
    /// names written inside lambda bodies defined so far (they may run whenever something is called)
    pub lambda_writes: std::collections::BTreeSet<String>,
    /// one statement in `cancel_den` gets a one-shot cancellation (0 = never)
    pub cancel_den: u32,
    /// closures with captured inner-scope cells exist in the session (see freevars::hidden_cells)
    pub hidden_cells: bool,
}

impl Drop for Gen {
    fn drop(&mut self) {
        if let Ok(mut t) = self.model.top.try_borrow_mut() {
            t.vars.clear();
        }
        crate::model::release_scopes();
    }
}

pub const STRS: &[&str] = &["", "a", "b", "ab", "xyz", "hello", "é", "λx", "q r", "0"];

impl Gen {
    pub fn new(seed: u64, cfg: RunCfg) -> Gen {
        let mut model = Model::new(cfg.allow_redecl);
        // generated programs are small: a statement that needs more steps than this is a runaway
        // and is rejected at generation time
        model.step_limit = 6_000;
        model.input = cfg.input.clone();
        model.in_err_at = cfg.in_err_at;
        Gen {
            rng: Rng::new(seed),
            model,
            script: Script {
                cfg,
                stmts: Vec::new(),
                alloc: None,
            },
            next_id: 0,
            kinds: Vec::new(),
            nontrivial: false,
            rejected: 0,
            declined: Vec::new(),
            lambda_writes: std::collections::BTreeSet::new(),
            cancel_den: 0,
            hidden_cells: false,
        }
    }

    /// append an implementation-only statement (the model is not consulted)
    pub fn push_outcome_only(&mut self, kind: &str, ex: Ex, write_set: Vec<String>, no_raise: bool) {
        self.push_outcome_only_t(kind, ex, write_set, no_raise, false)
    }

    pub fn push_outcome_only_t(
        &mut self,
        kind: &str,
        ex: Ex,
        write_set: Vec<String>,
        no_raise: bool,
        must_terminate: bool,
    ) {
        self.kinds.push(kind.to_string());
        self.script.stmts.push(Stmt {
            ex,
            faults: Vec::new(),
            write_set,
            mode: crate::run::Mode::OutcomeOnly,
            no_raise,
            must_terminate,
            hidden_state: false,
            swallow_probe: None,
            swallow_thrower: None,
        });
    }

    pub fn take_script(&mut self) -> Script {
        std::mem::replace(
            &mut self.script,
            Script {
                cfg: RunCfg::default(),
                stmts: Vec::new(),
                alloc: None,
            },
        )
    }

    pub fn fresh(&mut self, prefix: &str) -> String {
        let n = self.next_id;
        self.next_id += 1;
        format!("{}{}", prefix, n)
    }

    /// user variables (name, value) at top level
    pub fn vars(&self) -> Vec<(String, V)> {
        let t = self.model.top.borrow();
        let skip = crate::model::BUILTINS.len() + crate::model::TYPES.len();
        t.vars.iter().skip(skip).map(|(n, _, v)| (n.clone(), v.clone())).collect()
    }

    pub fn data_vars(&self) -> Vec<(String, V)> {
        self.vars().into_iter().filter(|(_, v)| !matches!(v, V::Func(_))).collect()
    }

    /// Try a candidate statement on the generator's model. Accept it (append to the script and keep
    /// the model's new state) unless the model declines to predict it. Returns the model outcome.
    pub fn push(&mut self, kind: &str, ex: Ex, mut faults: Vec<Fault>) -> Result<Result<V, ()>, String> {
        if self.cancel_den > 0 && faults.is_empty() && self.rng.chance(1, self.cancel_den) {
            // F7: cancel the evaluation after a seed-chosen number of interpreter steps
            let n = 1 + self.rng.below(40) as u64;
            faults.push(Fault::Cancel(n));
        }
        // apply faults to the generator's model the same way the executor will
        let saved_budget = self.model.out_budget;
        for f in &faults {
            match f {
                Fault::OutBudget(n) => self.model.out_budget = Some(*n),
                Fault::OutUnlimited => self.model.out_budget = None,
                Fault::Cancel(_) => {}
            }
        }
        if crate::run::trace_enabled() {
            eprintln!("GEN {}", crate::ir::render_top(&ex));
        }
        let top = self.model.top.clone();
        self.model.steps = 0;
        self.model.poisoned.clear();
        let r = self.model.eval(&top, &ex);
        match r {
            Err(Ctl::Unknown(m)) => {
                // the model may have been changed half-way: callers must treat this as fatal for
                // the script (generation stops); keep it rare
                self.model.out_budget = saved_budget;
                self.rejected += 1;
                self.declined.push(m.chars().take(70).collect());
                self.kinds.push("generation-stopped:model-declined".to_string());
                self.kinds.push(format!("declined: {}", m.chars().take(48).collect::<String>()));
                Err(m)
            }
            Err(Ctl::Fuel) => {
                self.rejected += 1;
                self.declined.push("model step budget".to_string());
                self.kinds.push("generation-stopped:model-step-budget".to_string());
                Err("model fuel".to_string())
            }
            r => {
                self.kinds.push(kind.to_string());
                self.script.stmts.push(Stmt {
                    ex,
                    faults,
                    write_set: Vec::new(),
                    mode: crate::run::Mode::Checked,
                    no_raise: false,
                    must_terminate: false,
                    hidden_state: false,
                    swallow_probe: None,
                    swallow_thrower: None,
                });
                self.lambda_writes.extend(crate::freevars::lambda_free_writes(&self.script.stmts.last().unwrap().ex));
                let had_hidden = self.hidden_cells;
                if !crate::freevars::hidden_cells(&self.script.stmts.last().unwrap().ex).is_empty() {
                    self.hidden_cells = true;
                }
                let _ = had_hidden;
                // a cancellation needs the set of variables the statement may write
                if self.script.stmts.last().unwrap().faults.iter().any(|f| matches!(f, Fault::Cancel(_))) {
                    let ex = self.script.stmts.last().unwrap().ex.clone();
                    let mut ws = crate::freevars::writes(&ex, false);
                    if crate::freevars::contains_call(&ex) {
                        ws.extend(self.lambda_writes.iter().cloned());
                    }
                    let top: Vec<String> = self.vars().into_iter().map(|(n, _)| n).collect();
                    let hidden = ws.iter().any(|n| !top.contains(n))
                        || (crate::freevars::contains_call(&ex)
                            && (self.hidden_cells || !crate::freevars::hidden_cells(&ex).is_empty()));
                    let st = self.script.stmts.last_mut().unwrap();
                    st.write_set = ws.into_iter().collect();
                    st.hidden_state = hidden;
                }
                Ok(match r {
                    Ok(v) => Ok(v),
                    Err(_) => Err(()),
                })
            }
        }
    }

    // -----------------------------------------------------------------------------------------
    // literal values

    pub fn small_int(&mut self) -> Ex {
        let r = self.rng.below(20);
        match r {
            0 => int(0),
            1 => int(-1),
            2 => int(self.rng.range(-50, -2)),
            3 => Ex::Num(NumLit::Pow2(63)),
            4 => Ex::Num(NumLit::Big("9223372036854775807".to_string())),
            5 => Ex::Num(NumLit::Pow2(64)),
            _ => int(self.rng.range(0, 9)),
        }
    }

    pub fn string(&mut self) -> Ex {
        Ex::Str(self.rng.pick(STRS).to_string())
    }

    pub fn key_lit(&mut self) -> Ex {
        if self.rng.chance(1, 2) {
            int(self.rng.range(0, 4))
        } else {
            Ex::Str(self.rng.pick(&["a", "b", "k", "zz"]).to_string())
        }
    }

    /// a literal expression of a random kind; `depth` bounds nesting
    pub fn value(&mut self, depth: usize, structs: &[(String, usize)]) -> Ex {
        let kinds: &[u32] = if depth == 0 {
            &[6, 4, 0, 0, 1, 1, 1, 0]
        } else {
            &[4, 3, 6, 4, 1, 1, 1, if structs.is_empty() { 0 } else { 2 }]
        };
        match self.rng.weighted(kinds) {
            0 => self.small_int(),
            1 => self.string(),
            2 => {
                let n = self.rng.below(5);
                Ex::List((0..n).map(|_| self.value(depth - 1, structs)).collect())
            }
            3 => {
                let n = self.rng.below(4);
                let def = if self.rng.chance(1, 3) {
                    Some(Box::new(self.value(depth - 1, structs)))
                } else {
                    None
                };
                let mut kvs = Vec::new();
                for _ in 0..n {
                    let k = self.key_lit();
                    let v = if self.rng.chance(1, 6) { None } else { Some(self.value(depth - 1, structs)) };
                    kvs.push((k, v));
                }
                Ex::Dict(def, kvs)
            }
            4 => Ex::Null,
            5 => {
                let n = self.rng.below(4);
                Ex::Call(Box::new(var("V")), (0..n).map(|_| int(self.rng.range(0, 9))).collect())
            }
            6 => {
                let n = self.rng.below(4);
                Ex::Call(Box::new(var("B")), (0..n).map(|_| int(self.rng.range(0, 255))).collect())
            }
            _ => {
                let (name, nf) = self.rng.pick(structs).clone();
                Ex::Call(
                    Box::new(var(&name)),
                    (0..nf).map(|_| self.value(depth.saturating_sub(1), structs)).collect(),
                )
            }
        }
    }
}

/// V -> literal expression (for keys and for re-creating values); None if not expressible
pub fn value_to_ex(v: &V, struct_names: &[String]) -> Option<Ex> {
    Some(match v {
        V::Null => Ex::Null,
        V::Int(n) => match n.to_i64() {
            Some(i) => int(i),
            None => {
                if n.is_negative() {
                    return None;
                }
                Ex::Num(NumLit::Big(n.to_string()))
            }
        },
        V::Float(f) => Ex::Num(NumLit::Float(f.to_bits())),
        V::Rat(r) => Ex::Num(NumLit::Rat(r.numer().to_i64()?, r.denom().to_i64()?)),
        V::Cx(a, b) => {
            if a.fract() != 0.0 || b.fract() != 0.0 || *a < 0.0 || *b < 0.0 {
                return None;
            }
            Ex::Num(NumLit::Cx(*a as i64, *b as i64))
        }
        V::Str(s) => Ex::Str(s.clone()),
        V::Bytes(b) => Ex::Call(Box::new(var("B")), b.iter().map(|x| int(*x as i64)).collect()),
        V::Vector(xs) => {
            let mut out = Vec::new();
            for x in xs {
                out.push(value_to_ex(x, struct_names)?);
            }
            Ex::Call(Box::new(var("V")), out)
        }
        V::List(xs) => {
            let mut out = Vec::new();
            for x in xs {
                out.push(value_to_ex(x, struct_names)?);
            }
            Ex::List(out)
        }
        V::Dict(d) => {
            let def = match &d.default {
                Some(dv) => Some(Box::new(value_to_ex(dv, struct_names)?)),
                None => None,
            };
            let mut kvs = Vec::new();
            for (k, v) in d.entries.iter() {
                kvs.push((value_to_ex(k, struct_names)?, Some(value_to_ex(v, struct_names)?)));
            }
            Ex::Dict(def, kvs)
        }
        V::Inst(sid, fields) => {
            let mut out = Vec::new();
            for x in fields {
                out.push(value_to_ex(x, struct_names)?);
            }
            Ex::Call(Box::new(var(struct_names.get(*sid)?)), out)
        }
        V::Func(_) | V::Stream(_) => return None,
    })
}

/// what kind of slot a path ends in
#[derive(Clone, Debug, PartialEq)]
pub enum SlotKind {
    /// any value can be stored (variable, list element, dict value, struct field)
    Free,
    StrByte,
    VecElem,
    ByteElem,
}

/// A random index path into `v` that is valid for the current value. Returns the path, the value
/// found there and the kind of the final slot.
pub fn random_path(
    rng: &mut Rng,
    v: &V,
    max_depth: usize,
    struct_fields: &dyn Fn(usize) -> Vec<String>,
    struct_names: &[String],
) -> (Vec<Ix>, V, SlotKind) {
    let mut path = Vec::new();
    let mut cur = v.clone();
    let mut kind = SlotKind::Free;
    for _ in 0..max_depth {
        if !rng.chance(3, 4) {
            break;
        }
        match &cur {
            V::List(xs) if !xs.is_empty() => {
                let i = rng.below(xs.len());
                let idx = if rng.chance(1, 3) { i as i64 - xs.len() as i64 } else { i as i64 };
                path.push(Ix::Index(int(idx)));
                let nx = xs[i].clone();
                cur = nx;
            }
            V::Dict(d) if d.default.is_some() && rng.chance(1, 3) => {
                // a key that is probably absent: reads see the default, `x[k] f= v` / pop / remove /
                // consume through it must materialise a copy of the default under that key only
                let k = if rng.chance(1, 2) {
                    int(rng.range(0, 6))
                } else {
                    Ex::Str(rng.pick(&["a", "b", "k", "zz", "new"]).to_string())
                };
                let kv = crate::model::num_lit_or_str(&k);
                let nx = match d.get(&kv) {
                    Some(v) => v.clone(),
                    None => (**d.default.as_ref().unwrap()).clone(),
                };
                path.push(Ix::Index(k));
                cur = nx;
            }
            V::Dict(d) if !d.entries.is_empty() => {
                let i = rng.below(d.entries.len());
                let k = match value_to_ex(&d.entries[i].0, struct_names) {
                    Some(k) => k,
                    None => break,
                };
                path.push(Ix::Index(k));
                let nx = d.entries[i].1.clone();
                cur = nx;
            }
            V::Inst(sid, fields) if !fields.is_empty() => {
                let names = struct_fields(*sid);
                let i = rng.below(fields.len());
                path.push(Ix::Index(var(&names[i])));
                let nx = fields[i].clone();
                cur = nx;
            }
            V::Str(s) if !s.is_empty() => {
                let i = rng.below(s.len());
                path.push(Ix::Index(int(i as i64)));
                cur = V::Null;
                kind = SlotKind::StrByte;
                break;
            }
            V::Vector(xs) if !xs.is_empty() => {
                let i = rng.below(xs.len());
                path.push(Ix::Index(int(i as i64)));
                cur = xs[i].clone();
                kind = SlotKind::VecElem;
                break;
            }
            V::Bytes(bs) if !bs.is_empty() => {
                let i = rng.below(bs.len());
                path.push(Ix::Index(int(i as i64)));
                cur = crate::val::vint(bs[i] as i64);
                kind = SlotKind::ByteElem;
                break;
            }
            _ => break,
        }
    }
    (path, cur, kind)
}

pub fn kind_name(v: &V) -> &'static str {
    match v {
        V::Null => "null",
        V::Int(_) => "int",
        V::Rat(_) => "rat",
        V::Float(_) => "float",
        V::Cx(..) => "complex",
        V::Str(_) => "str",
        V::Bytes(_) => "bytes",
        V::Vector(_) => "vector",
        V::List(_) => "list",
        V::Dict(_) => "dict",
        V::Inst(..) => "inst",
        V::Func(_) => "func",
        V::Stream(_) => "stream",
    }
}
