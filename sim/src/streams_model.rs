// Model-side stream constructors and consumers. A finite stream is its list of remaining elements
// (computed eagerly from the documented enumeration order); an infinite stream is its recurrence.

use crate::model::*;
use crate::val::*;
use num::bigint::BigInt;
use num::{Signed, ToPrimitive, Zero};
use std::rc::Rc;

fn throw<T>(m: &str) -> R<T> {
    throw_(m)
}
fn unknown<T>(m: &str) -> R<T> {
    unknown_(m)
}

const MAX_ELEMS: usize = 20_000;

fn range(start: &BigInt, end: &BigInt, step: &BigInt) -> R<Vec<V>> {
    if step.is_zero() {
        return unknown("range with zero step");
    }
    let mut out = Vec::new();
    let mut cur = start.clone();
    loop {
        let done = if step.is_negative() { &cur <= end } else { &cur >= end };
        if done {
            break;
        }
        out.push(V::Int(cur.clone()));
        cur += step;
        if out.len() > MAX_ELEMS {
            return unknown("range too long for the model");
        }
    }
    Ok(out)
}

fn as_int(v: &V) -> R<BigInt> {
    match v {
        V::Int(n) => Ok(n.clone()),
        x if is_num(x) => throw("value error: bad number to int"),
        _ => throw("argument error: number expected"),
    }
}

/// `to_rc_vec_obj`: a list as it is, any other sequence by iteration
fn base_list(m: &mut Model, v: &V) -> R<Vec<V>> {
    match v {
        V::List(xs) => Ok(xs.clone()),
        V::Dict(_) => unknown("combinatorial stream over dict (hash order)"),
        V::Stream(s) if Model::stream_is_infinite(s) => unknown("combinatorial stream over infinite stream"),
        V::Vector(_) | V::Str(_) | V::Bytes(_) | V::Stream(_) => m.iterate(v, "to_rc_vec"),
        _ => throw("type error: not iterable"),
    }
}

fn next_permutation(idx: &mut Vec<usize>) -> bool {
    // lexicographic successor
    if idx.len() < 2 {
        return false;
    }
    let mut i = idx.len() - 1;
    while i > 0 && idx[i - 1] >= idx[i] {
        i -= 1;
    }
    if i == 0 {
        return false;
    }
    let mut j = idx.len() - 1;
    while idx[j] <= idx[i - 1] {
        j -= 1;
    }
    idx.swap(i - 1, j);
    idx[i..].reverse();
    true
}

pub fn call_stream_builtin(m: &mut Model, site: &ScopeRef, name: &str, mut args: Vec<V>) -> R<V> {
    let _ = site;
    match name {
        "to" | "til" => match args.len() {
            1 => unknown("range partial application"),
            2 => match (&args[0], &args[1]) {
                (a, b) if is_num(a) && is_num(b) => {
                    let s = as_int(a)?;
                    let e = as_int(b)?;
                    let end = if name == "to" { e + 1 } else { e };
                    Ok(V::Stream(StreamV::Fin(range(&s, &end, &BigInt::from(1))?)))
                }
                (V::Str(_), V::Str(_)) => unknown("string range"),
                (_, V::Func(_)) if name == "to" => unknown("to <type> conversion sugar"),
                _ => throw("argument error: range"),
            },
            3 => {
                if !(is_num(&args[0]) && is_num(&args[1]) && is_num(&args[2])) {
                    return throw("argument error: range");
                }
                let s = as_int(&args[0])?;
                let e = as_int(&args[1])?;
                let st = as_int(&args[2])?;
                let end = if name == "to" {
                    if st.is_negative() {
                        e - 1
                    } else {
                        e + 1
                    }
                } else {
                    e
                };
                Ok(V::Stream(StreamV::Fin(range(&s, &end, &st)?)))
            }
            _ => throw("argument error: range"),
        },
        "iota" => {
            if args.len() != 1 {
                return throw("type error: expected one argument");
            }
            match &args[0] {
                V::Int(n) => Ok(V::Stream(StreamV::Iota(n.clone()))),
                _ => throw("argument error: iota"),
            }
        }
        "repeat" => {
            if args.len() != 1 {
                return throw("type error: expected one argument");
            }
            Ok(V::Stream(StreamV::Repeat(Box::new(args.pop().unwrap()))))
        }
        "cycle" => {
            if args.len() != 1 {
                return throw("type error: expected one argument");
            }
            let xs = base_list(m, &args[0])?;
            if xs.is_empty() {
                return throw("empty error: cycle of empty sequence");
            }
            Ok(V::Stream(StreamV::Cycle(xs, 0)))
        }
        "iterate" => {
            if args.len() != 2 {
                return unknown("iterate arity");
            }
            match &args[1] {
                V::Func(f) => Ok(V::Stream(StreamV::Iterate(Box::new(args[0].clone()), f.clone()))),
                _ => throw("argument error: iterate"),
            }
        }
        "lazy_map" | "lazy_filter" => {
            if args.len() != 2 {
                return unknown("lazy hof arity");
            }
            match (&args[0], &args[1]) {
                (V::Stream(s), V::Func(f)) => Ok(V::Stream(if name == "lazy_map" {
                    StreamV::Map(Box::new(s.clone()), f.clone())
                } else {
                    StreamV::Filter(Box::new(s.clone()), f.clone())
                })),
                // a sequence that is not a stream: HEAD refuses, `lazy_map(stream(seq), f)` is the
                // obvious meaning
                (V::List(_) | V::Vector(_) | V::Bytes(_) | V::Str(_) | V::Dict(_), V::Func(_)) => {
                    crate::model::throw_unsupported("argument error: lazy hof")
                }
                _ => throw("argument error: lazy hof"),
            }
        }
        "lazy_zip" => {
            // streams only (at least one), at most one function
            if args.len() < 2 {
                return unknown("lazy_zip partial application");
            }
            let mut f: Option<Rc<FuncV>> = None;
            let mut members = Vec::new();
            for a in args.iter() {
                match a {
                    V::Func(g) => {
                        if f.is_some() {
                            return throw("argument error: lazy_zip: more than one function");
                        }
                        f = Some(g.clone());
                    }
                    V::Stream(s) => members.push(s.clone()),
                    V::List(_) | V::Vector(_) | V::Bytes(_) | V::Str(_) | V::Dict(_) => {
                        return crate::model::throw_unsupported("argument error: lazy_zip: not stream")
                    }
                    _ => return throw("argument error: lazy_zip: not stream"),
                }
            }
            if members.is_empty() {
                return throw("argument error: lazy_zip: zero streams");
            }
            Ok(V::Stream(StreamV::Zip(members, f)))
        }
        "permutations" => {
            if args.len() != 1 {
                return throw("type error: expected one argument");
            }
            let xs = base_list(m, &args[0])?;
            if xs.len() > 6 {
                return unknown("too many permutations for the model");
            }
            let mut idx: Vec<usize> = (0..xs.len()).collect();
            let mut out = Vec::new();
            loop {
                out.push(V::List(idx.iter().map(|i| xs[*i].clone()).collect()));
                if !next_permutation(&mut idx) {
                    break;
                }
            }
            Ok(V::Stream(StreamV::Fin(out)))
        }
        "combinations" => {
            if args.len() != 2 {
                return unknown("combinations arity");
            }
            let xs = base_list(m, &args[0])?;
            let k = match &args[1] {
                V::Int(n) => match n.to_usize() {
                    Some(k) => k,
                    None => return throw("value error: bad combo"),
                },
                x if is_num(x) => return throw("value error: bad combo"),
                _ => return throw("argument error: combinations"),
            };
            if xs.len() > 10 || k > 12 {
                return unknown("too many combinations for the model");
            }
            let mut out = Vec::new();
            if k <= xs.len() {
                let mut idx: Vec<usize> = (0..k).collect();
                loop {
                    out.push(V::List(idx.iter().map(|i| xs[*i].clone()).collect()));
                    // lexicographic successor
                    let mut i = k;
                    let mut moved = false;
                    while i > 0 {
                        i -= 1;
                        if idx[i] + (k - i) < xs.len() {
                            idx[i] += 1;
                            for j in i + 1..k {
                                idx[j] = idx[j - 1] + 1;
                            }
                            moved = true;
                            break;
                        }
                    }
                    if !moved {
                        break;
                    }
                }
            }
            Ok(V::Stream(StreamV::Fin(out)))
        }
        "subsequences" => {
            if args.len() != 1 {
                return throw("type error: expected one argument");
            }
            let xs = base_list(m, &args[0])?;
            if xs.len() > 10 {
                return unknown("too many subsequences for the model");
            }
            let n = xs.len();
            let mut out = Vec::new();
            // big-endian binary counting: the last element is the least significant bit
            for mask in 0..(1usize << n) {
                let mut sub = Vec::new();
                for (i, x) in xs.iter().enumerate() {
                    if mask & (1 << (n - 1 - i)) != 0 {
                        sub.push(x.clone());
                    }
                }
                out.push(V::List(sub));
            }
            Ok(V::Stream(StreamV::Fin(out)))
        }
        "^^" => {
            if args.len() != 2 {
                return unknown("^^ arity");
            }
            let xs = base_list(m, &args[0])?;
            let k = match &args[1] {
                V::Int(n) => match n.to_usize() {
                    Some(k) => k,
                    None => return throw("value error: bad lazy pow"),
                },
                x if is_num(x) => return throw("value error: bad lazy pow"),
                _ => return throw("argument error: ^^"),
            };
            if xs.is_empty() {
                return Ok(V::Stream(StreamV::Fin(vec![])));
            }
            if k > 6 || xs.len().pow(k as u32) > 5000 {
                return unknown("cartesian power too large for the model");
            }
            let mut out = Vec::new();
            let mut idx = vec![0usize; k];
            loop {
                out.push(V::List(idx.iter().map(|i| xs[*i].clone()).collect()));
                // odometer, last coordinate fastest
                let mut i = k;
                let mut moved = false;
                while i > 0 {
                    i -= 1;
                    idx[i] += 1;
                    if idx[i] == xs.len() {
                        idx[i] = 0;
                    } else {
                        moved = true;
                        break;
                    }
                }
                if !moved {
                    break;
                }
            }
            Ok(V::Stream(StreamV::Fin(out)))
        }
        "take" | "drop" => {
            if args.len() != 2 {
                return unknown("take/drop arity");
            }
            if let V::Func(_) = &args[1] {
                return unknown("take/drop while");
            }
            match &args[0] {
                V::List(_) | V::Str(_) | V::Vector(_) | V::Bytes(_) | V::Stream(_) | V::Dict(_) => {
                    if name == "take" {
                        m.slice(&args[0], None, Some(&args[1]))
                    } else {
                        m.slice(&args[0], Some(&args[1]), None)
                    }
                }
                _ => throw("type error: can't slice"),
            }
        }
        "tail" | "butlast" => unknown("tail/butlast"),
        "enumerate" | "zip" | "flatten" | "any" | "all" | "count" | "group_all" | "join" | "only" | "find"
        | "locate" | "uncons" | "unsnoc" | "**" | "second" | "third" => {
            unknown(&format!("builtin not modelled: {}", name))
        }
        _ => unknown(&format!("builtin not modelled: {}", name)),
    }
}

#[allow(dead_code)]
fn _keep(_: Rc<FuncV>) {}
