// Model-side stream constructors and consumers (filled in by the `stream` profile).

use crate::model::*;
use crate::val::*;

pub fn call_stream_builtin(_m: &mut Model, _site: &ScopeRef, name: &str, _args: Vec<V>) -> R<V> {
    unknown_(&format!("builtin not modelled: {}", name))
}
