// Profile `freeze` (C17): closed lambdas over the flow vocabulary whose free variables are session
// variables and operators. For each, the session defines a plain twin L and a frozen twin
// F := freeze L; a seeded scheduler then interleaves calls of both twins with reassignments of the
// outer variables (values, `swap +, *`, user operators). Negative cases: unbound free variable,
// assignment to an outer variable.

use crate::gen_common::*;
use crate::gen_flow::{Ctx, FlowGen};
use crate::ir::*;
use crate::rng::Rng;
use crate::run::{Fault, RunCfg, Script};

pub struct FreezeOut {
    pub script: Script,
    pub kinds: Vec<String>,
    pub nontrivial: bool,
}

pub fn generate(seed: u64, fault_free: bool) -> FreezeOut {
    let mut pre = Rng::new(seed ^ 0xf4ee);
    let cfg = RunCfg {
        hash_seed: pre.next(),
        short_writes: !fault_free && pre.chance(1, 2),
        writer_seed: pre.next(),
        ..RunCfg::default()
    };
    let mut g = Gen::new(seed, cfg);
    let mut fg = FlowGen {
        rng: Rng::new(seed ^ 0xf00d),
        next: 0,
        budget: 0,
        has_print: false,
        features: Vec::new(),
        fault: !fault_free,
        frozen_body: true,
    };
    let mut nontrivial = false;

    // session variables the lambdas close over
    let myop = Ex::Lambda(
        vec![lv("p"), lv("q")],
        Box::new(bin(bin(var("p"), "*", int(10)), "+", var("q"))),
    );
    for (name, e) in [
        ("n0", int(3)),
        ("n1", int(1)),
        ("l0", Ex::List(vec![int(1), int(2), int(3)])),
        ("myop", myop),
        ("helper", Ex::Lambda(vec![lv("h")], Box::new(bin(var("h"), "+", var("n1"))))),
        ("ty", var("int")),
    ] {
        if g.push("session-var", declare(name, e), vec![]).is_err() {
            return finish(g, &fg, nontrivial);
        }
    }
    let outer = Ctx {
        consts: vec!["n0".into(), "n1".into()],
        ints: Vec::new(),
        lists: Vec::new(),
        ro_lists: vec!["l0".into()],
        ops: vec!["myop".into()],
        types: vec!["ty".into()],
        funcs: vec![("helper".into(), 1, 1)],
        loop_depth: 0,
        in_lambda: false,
    };

    // twins: (plain name, frozen name, min args, max args)
    let mut twins: Vec<(String, String, usize, usize)> = Vec::new();
    let n_twins = 1 + fg.rng.below(3);
    for k in 0..n_twins {
        fg.budget = 15 + fg.rng.below(40) as i64;
        let depth = 2 + fg.rng.below(3);
        let (lam, lo, hi) = fg.lambda(&outer, depth);
        let l = format!("L{}", k);
        let f = format!("F{}", k);
        if g.push("declare-plain", declare(&l, lam.clone()), vec![]).is_err() {
            return finish(g, &fg, nontrivial);
        }
        match g.push("declare-frozen", declare(&f, Ex::Freeze(Box::new(lam))), vec![]) {
            Ok(Ok(_)) => twins.push((l, f, lo, hi)),
            Ok(Err(())) => {}
            Err(_) => return finish(g, &fg, nontrivial),
        }
    }

    let n_ops = 6 + fg.rng.below(16);
    let mut reassigned = false;
    let mut out_limited = false;
    for _ in 0..n_ops {
        let choice = fg.rng.weighted(&[10, 10, 5, 3, 3, 2, 2, 2, 2, 3]);
        let r = match choice {
            0 | 1 => {
                // call a twin (or both) on the same arguments
                if twins.is_empty() {
                    continue;
                }
                let (l, f, lo, hi) = fg.rng.pick(&twins).clone();
                let n = if hi == usize::MAX { lo + fg.rng.below(3) } else { lo + fg.rng.below(hi - lo + 1) };
                let args: Vec<Ex> = (0..n).map(|_| int(fg.rng.range(0, 9))).collect();
                if reassigned {
                    nontrivial = true;
                }
                let mut faults = Vec::new();
                if !fault_free && fg.rng.chance(1, 6) {
                    faults.push(Fault::OutBudget(fg.rng.below(8)));
                    out_limited = true;
                } else if out_limited {
                    faults.push(Fault::OutUnlimited);
                    out_limited = false;
                }
                let e = match fg.rng.below(3) {
                    0 => call(&f, args),
                    1 => call(&l, args),
                    _ => Ex::List(vec![call(&l, args.clone()), call(&f, args)]),
                };
                g.push("call-twin", e, faults)
            }
            2 => {
                // reassign an outer value
                reassigned = true;
                let e = match fg.rng.below(4) {
                    0 => Ex::Assign(false, Box::new(lv("n0")), Box::new(int(fg.rng.range(0, 9)))),
                    1 => Ex::OpAssign(false, Box::new(lv("n1")), "+".into(), Box::new(int(fg.rng.range(1, 5)))),
                    2 => Ex::Assign(
                        false,
                        Box::new(lv("l0")),
                        Box::new(Ex::List((0..fg.rng.below(4)).map(|_| int(fg.rng.range(0, 9))).collect())),
                    ),
                    _ => Ex::Swap(Box::new(lv("n0")), Box::new(lv("n1"))),
                };
                g.push("reassign-value", e, vec![])
            }
            3 => {
                // reassign operators: the frozen twin keeps the operator values (and precedences) it saw
                reassigned = true;
                // (negative literals are spelled `(0-n)`; the model reads them through `-` too, so
                // `-` may be reassigned like any other operator)
                let (a, b) = *fg.rng.pick(&[("+", "*"), ("+", "*"), ("*", "//"), ("-", "+"), ("-", "*")]);
                fg.feat("swap-operators");
                g.push("swap-operators", Ex::Swap(Box::new(lv(a)), Box::new(lv(b))), vec![])
            }
            4 if fg.rng.chance(1, 4) => {
                // `-` bound to something that is not the builtin: unary and binary uses, and
                // negative literals, follow it -- in frozen code as of freeze time
                reassigned = true;
                fg.feat("minus-rebound-to-closure");
                let body = bin(call("len", vec![var("a")]), "+", int(fg.rng.range(40, 49)));
                g.push(
                    "reassign-minus",
                    Ex::Assign(
                        false,
                        Box::new(lv("-")),
                        Box::new(Ex::Lambda(vec![Lv::Splat(Box::new(lv("a")))], Box::new(body))),
                    ),
                    vec![],
                )
            }
            4 => {
                reassigned = true;
                let body = match fg.rng.below(3) {
                    0 => bin(var("p"), "-", var("q")),
                    1 => var("q"),
                    _ => bin(bin(var("p"), "+", var("q")), "+", int(100)),
                };
                g.push(
                    "reassign-user-operator",
                    Ex::Assign(
                        false,
                        Box::new(lv("myop")),
                        Box::new(Ex::Lambda(vec![lv("p"), lv("q")], Box::new(body))),
                    ),
                    vec![],
                )
            }
            5 => {
                reassigned = true;
                g.push(
                    "reassign-helper",
                    Ex::Assign(
                        false,
                        Box::new(lv("helper")),
                        Box::new(Ex::Lambda(vec![lv("h")], Box::new(bin(var("h"), "*", int(2))))),
                    ),
                    vec![],
                )
            }
            6 => {
                // negative: an unbound free variable makes freezing fail at once
                let name = fg.fresh("G");
                let lam = match fg.rng.below(6) {
                    // a bare underscore in any position
                    0 => Ex::Lambda(vec![lv("z")], Box::new(Ex::If(Box::new(var("z")), Box::new(int(1)), Some(Box::new(var("_")))))),
                    1 => Ex::Lambda(vec![lv("z")], Box::new(Ex::Return(Some(Box::new(var("_")))))),
                    2 => Ex::Lambda(vec![lv("z")], Box::new(Ex::Dict(None, vec![(var("z"), Some(var("_")))]))),
                    // an unbound name in less obvious positions
                    3 => Ex::Lambda(
                        vec![lv("z")],
                        Box::new(Ex::Try(Box::new(var("z")), Box::new(lv("err")), Box::new(var("not_declared_anywhere")))),
                    ),
                    4 => Ex::Lambda(
                        vec![lv("z")],
                        Box::new(Ex::Lambda(vec![lv("w")], Box::new(bin(var("w"), "+", var("not_declared_anywhere"))))),
                    ),
                    _ => Ex::Lambda(vec![lv("z")], Box::new(bin(var("z"), "+", var("not_declared_anywhere")))),
                };
                g.push("freeze-unbound", declare(&name, Ex::Freeze(Box::new(lam))), vec![])
            }
            7 => {
                // negative: frozen code may not assign to an outer variable
                let name = fg.fresh("G");
                let l0_at = |i: i64| Lv::Ident("l0".into(), vec![Ix::Index(int(i))]);
                let body = match fg.rng.below(11) {
                    0 => Ex::Assign(false, Box::new(lv("n0")), Box::new(var("z"))),
                    1 => Ex::OpAssign(false, Box::new(lv("n1")), "+".into(), Box::new(var("z"))),
                    // every other way of writing to an outer variable
                    3 => Ex::Seq(vec![Ex::Assign(false, Box::new(l0_at(0)), Box::new(var("z"))), var("l0")], false),
                    4 => Ex::OpAssign(false, Box::new(l0_at(0)), "+".into(), Box::new(int(1))),
                    5 => Ex::Remove(Box::new(l0_at(0))),
                    6 => Ex::Pop(Box::new(lv("l0"))),
                    7 => Ex::Seq(vec![declare("loc", var("z")), Ex::Swap(Box::new(lv("n0")), Box::new(lv("loc")))], false),
                    8 => Ex::Assign(
                        false,
                        Box::new(Lv::Seq(vec![Lv::Annot(Box::new(lv("loc")), None), lv("n0")], false)),
                        Box::new(Ex::List(vec![var("z"), int(1)])),
                    ),
                    9 => Ex::Assign(true, Box::new(lv("l0")), Box::new(int(0))),
                    10 => Ex::Consume(Box::new(l0_at(0))),
                    _ => Ex::Seq(
                        vec![
                            declare("loc", var("z")),
                            Ex::OpAssign(false, Box::new(lv("l0")), "append".into(), Box::new(var("loc"))),
                        ],
                        false,
                    ),
                };
                let lam = Ex::Lambda(vec![lv("z")], Box::new(body));
                g.push("freeze-outer-write", declare(&name, Ex::Freeze(Box::new(lam))), vec![])
            }
            9 => {
                // reassign the type variable used by annotations inside the lambdas
                reassigned = true;
                let t = *fg.rng.pick(&["number", "anything", "str", "int", "list"]);
                g.push("reassign-type", Ex::Assign(false, Box::new(lv("ty")), Box::new(var(t))), vec![])
            }
            _ => {
                // another pair of twins later in the session (after some reassignments)
                fg.budget = 15 + fg.rng.below(30) as i64;
                let depth = 2 + fg.rng.below(2);
                let (lam, lo, hi) = fg.lambda(&outer, depth);
                let k = twins.len() + 10;
                let l = format!("L{}", k);
                let f = format!("F{}", k);
                if g.push("declare-plain", declare(&l, lam.clone()), vec![]).is_err() {
                    break;
                }
                let r = g.push("declare-frozen", declare(&f, Ex::Freeze(Box::new(lam))), vec![]);
                if let Ok(Ok(_)) = r {
                    twins.push((l, f, lo, hi));
                }
                r
            }
        };
        if r.is_err() {
            break;
        }
    }
    finish(g, &fg, nontrivial)
}

fn finish(mut g: Gen, fg: &FlowGen, nontrivial: bool) -> FreezeOut {
    let mut kinds = std::mem::take(&mut g.kinds);
    let mut feats: Vec<&'static str> = fg.features.clone();
    feats.sort();
    feats.dedup();
    for f in feats.iter() {
        kinds.push(format!("feature:{}", f));
    }
    FreezeOut {
        script: g.take_script(),
        kinds,
        nontrivial,
    }
}
