// Own PRNG: xoshiro256** seeded through splitmix64. No crate, no clock. One integer decides
// everything in a run.

#[derive(Clone, Debug)]
pub struct Rng {
    s: [u64; 4],
}

pub fn splitmix64(x: &mut u64) -> u64 {
    *x = x.wrapping_add(0x9e37_79b9_7f4a_7c15);
    let mut z = *x;
    z = (z ^ (z >> 30)).wrapping_mul(0xbf58_476d_1ce4_e5b9);
    z = (z ^ (z >> 27)).wrapping_mul(0x94d0_49bb_1331_11eb);
    z ^ (z >> 31)
}

/// Derive a sub-seed from (base seed, stream tag, index) without sharing state.
pub fn mix3(a: u64, b: u64, c: u64) -> u64 {
    let mut x = a ^ 0x1234_5678_9abc_def0;
    let mut r = splitmix64(&mut x);
    x ^= b.wrapping_mul(0x9e37_79b9_7f4a_7c15);
    r ^= splitmix64(&mut x);
    x ^= c.wrapping_mul(0xc2b2_ae3d_27d4_eb4f);
    r ^= splitmix64(&mut x);
    r
}

pub fn tag(s: &str) -> u64 {
    let mut h: u64 = 0xcbf2_9ce4_8422_2325;
    for b in s.bytes() {
        h = (h ^ b as u64).wrapping_mul(0x0000_0100_0000_01b3);
    }
    h
}

impl Rng {
    pub fn new(seed: u64) -> Rng {
        let mut x = seed;
        let s = [
            splitmix64(&mut x),
            splitmix64(&mut x),
            splitmix64(&mut x),
            splitmix64(&mut x),
        ];
        Rng { s }
    }
    pub fn next(&mut self) -> u64 {
        let r = self.s[1].wrapping_mul(5).rotate_left(7).wrapping_mul(9);
        let t = self.s[1] << 17;
        self.s[2] ^= self.s[0];
        self.s[3] ^= self.s[1];
        self.s[1] ^= self.s[2];
        self.s[0] ^= self.s[3];
        self.s[2] ^= t;
        self.s[3] = self.s[3].rotate_left(45);
        r
    }
    /// uniform in 0..n (n > 0)
    pub fn below(&mut self, n: usize) -> usize {
        debug_assert!(n > 0);
        (self.next() % (n as u64)) as usize
    }
    /// uniform in lo..=hi
    pub fn range(&mut self, lo: i64, hi: i64) -> i64 {
        debug_assert!(hi >= lo);
        lo + (self.next() % ((hi - lo + 1) as u64)) as i64
    }
    pub fn chance(&mut self, num: u32, den: u32) -> bool {
        (self.next() % den as u64) < num as u64
    }
    pub fn pick<'a, T>(&mut self, xs: &'a [T]) -> &'a T {
        &xs[self.below(xs.len())]
    }
    /// weighted choice: returns index
    pub fn weighted(&mut self, ws: &[u32]) -> usize {
        let total: u64 = ws.iter().map(|w| *w as u64).sum();
        debug_assert!(total > 0);
        let mut r = self.next() % total;
        for (i, w) in ws.iter().enumerate() {
            if r < *w as u64 {
                return i;
            }
            r -= *w as u64;
        }
        ws.len() - 1
    }
}
