// NL-core IR: a small typed syntax tree with two back ends -- `render()` produces noulith source
// for the real parser, the reference model (model.rs) interprets the tree directly.

use serde::{Deserialize, Serialize};

#[derive(Clone, Debug, Serialize, Deserialize, PartialEq)]
pub enum NumLit {
    Int(i64),
    /// decimal digits of a non-negative big integer
    Big(String),
    /// 2^k as an integer, rendered `(2^k)`
    Pow2(u32),
    /// float by bits; rendered from a fixed spelling table (see render_float)
    Float(u64),
    /// p/q rendered `(p/q)`: a rational value (also when q divides p)
    Rat(i64, i64),
    /// rendered `(re+imi)` from small integers: a complex value (re, im as floats)
    Cx(i64, i64),
}

#[derive(Clone, Debug, Serialize, Deserialize, PartialEq)]
pub enum Ex {
    Null,
    Num(NumLit),
    Str(String),
    Var(String),
    List(Vec<Ex>),
    Dict(Option<Box<Ex>>, Vec<(Ex, Option<Ex>)>),
    Index(Box<Ex>, Box<Ex>),
    Slice(Box<Ex>, Option<Box<Ex>>, Option<Box<Ex>>),
    Call(Box<Ex>, Vec<Ex>),
    Splat(Box<Ex>),
    /// `(l op r)` with `op` an identifier (symbolic or alphanumeric) looked up at run time
    Bin(Box<Ex>, String, Box<Ex>),
    /// unparenthesised infix chain `e0 op1 e1 op2 e2 ...` (grouping by run-time precedence)
    Chain(Box<Ex>, Vec<(String, Ex)>),
    Update(Box<Ex>, Vec<(Ex, Ex)>),
    And(Box<Ex>, Box<Ex>),
    Or(Box<Ex>, Box<Ex>),
    Coalesce(Box<Ex>, Box<Ex>),
    Seq(Vec<Ex>, bool),
    If(Box<Ex>, Box<Ex>, Option<Box<Ex>>),
    While(Box<Ex>, Box<Ex>),
    For(Vec<Clause>, Box<ForBody>),
    Break(usize, Option<Box<Ex>>),
    Continue(usize),
    Return(Option<Box<Ex>>),
    Try(Box<Ex>, Box<Lv>, Box<Ex>),
    Throw(Box<Ex>),
    Lambda(Vec<Lv>, Box<Ex>),
    Switch(Box<Ex>, Vec<(Lv, Ex)>),
    Assign(bool, Box<Lv>, Box<Ex>),
    CommaSeq(Vec<Ex>),
    OpAssign(bool, Box<Lv>, String, Box<Ex>),
    Pop(Box<Lv>),
    Remove(Box<Lv>),
    Consume(Box<Lv>),
    Swap(Box<Lv>, Box<Lv>),
    Freeze(Box<Ex>),
    StructDef(String, Vec<(String, Option<Ex>)>),
    /// `eval("<rendering of the inner expression>")`
    EvalOf(Box<Ex>),
    /// `eval("<arbitrary text>")` -- torn / corrupted code (outcome only: value or raise)
    EvalText(String),
}

#[derive(Clone, Debug, Serialize, Deserialize, PartialEq)]
pub enum Clause {
    Each(Lv, Ex),  // x <- e
    Pairs(Lv, Ex), // i, x <<- e
    Decl(Lv, Ex),  // x := e
    Guard(Ex),     // if e
}

#[derive(Clone, Debug, Serialize, Deserialize, PartialEq)]
pub enum ForBody {
    Do(Ex),
    Yield(Ex, Option<Ex>),
    YieldItem(Ex, Ex, Option<Ex>),
}

#[derive(Clone, Debug, Serialize, Deserialize, PartialEq)]
pub enum Ix {
    Index(Ex),
    Slice(Option<Ex>, Option<Ex>),
}

#[derive(Clone, Debug, Serialize, Deserialize, PartialEq)]
pub enum Lv {
    Underscore,
    Ident(String, Vec<Ix>),
    Annot(Box<Lv>, Option<Box<Ex>>),
    Default(Box<Lv>, Box<Ex>),
    Seq(Vec<Lv>, bool),
    Splat(Box<Lv>),
    Or(Box<Lv>, Box<Lv>),
    And(Box<Lv>, Box<Lv>),
    Lit(Box<Ex>),
    Destructure(Box<Ex>, Vec<Lv>),
    /// chained comparison pattern `a < b <= c` (operands, operators)
    Cmp(Vec<Lv>, Vec<String>),
}

pub fn var(s: &str) -> Ex {
    Ex::Var(s.to_string())
}
pub fn int(n: i64) -> Ex {
    Ex::Num(NumLit::Int(n))
}
pub fn lv(s: &str) -> Lv {
    Lv::Ident(s.to_string(), vec![])
}
pub fn declare(name: &str, e: Ex) -> Ex {
    Ex::Assign(false, Box::new(Lv::Annot(Box::new(lv(name)), None)), Box::new(e))
}
pub fn call(f: &str, args: Vec<Ex>) -> Ex {
    Ex::Call(Box::new(var(f)), args)
}
pub fn bin(l: Ex, op: &str, r: Ex) -> Ex {
    Ex::Bin(Box::new(l), op.to_string(), Box::new(r))
}

// ---------------------------------------------------------------------------------------------
// rendering

pub fn float_spelling(bits: u64) -> String {
    let f = f64::from_bits(bits);
    if f.is_nan() {
        return "(0.0/0.0)".to_string();
    }
    if f.is_infinite() {
        return if f > 0.0 { "(1.0/0.0)".to_string() } else { "((0.0-1.0)/0.0)".to_string() };
    }
    if f == 0.0 && f.is_sign_negative() {
        return "(0.0*(0.0-1.0))".to_string();
    }
    let neg = f < 0.0;
    let a = f.abs();
    // only floats whose fixed-point rendering is short and exact are generated
    let s = if a == a.trunc() && a < 1e15 {
        format!("{:.1}", a)
    } else if a == 18446744073709551616.0 {
        "18446744073709551616.0".to_string()
    } else {
        let t = format!("{}", a);
        if t.contains('.') {
            t
        } else {
            format!("{}.0", t)
        }
    };
    if neg {
        format!("(0.0-{})", s)
    } else {
        s
    }
}

fn render_num(n: &NumLit) -> String {
    match n {
        NumLit::Int(i) if *i >= 0 => format!("{}", i),
        NumLit::Int(i) => format!("(0-{})", (*i as i128).abs()),
        NumLit::Big(s) => s.clone(),
        NumLit::Pow2(k) => format!("(2^{})", k),
        NumLit::Float(b) => float_spelling(*b),
        NumLit::Rat(p, q) if *p >= 0 => format!("({}/{})", p, q),
        NumLit::Rat(p, q) => format!("((0-{})/{})", (*p as i128).abs(), q),
        NumLit::Cx(re, im) => format!("({}+{}i)", re, im),
    }
}

pub fn escape_str(s: &str) -> String {
    let mut out = String::with_capacity(s.len() + 2);
    out.push('"');
    for c in s.chars() {
        match c {
            '\\' => out.push_str("\\\\"),
            '"' => out.push_str("\\\""),
            '\n' => out.push_str("\\n"),
            '\r' => out.push_str("\\r"),
            '\t' => out.push_str("\\t"),
            '\0' => out.push_str("\\0"),
            c => out.push(c),
        }
    }
    out.push('"');
    out
}

fn is_atomic(e: &Ex) -> bool {
    match e {
        Ex::Null | Ex::Str(_) | Ex::Var(_) | Ex::List(_) | Ex::Dict(..) => true,
        Ex::Num(n) => matches!(n, NumLit::Int(i) if *i >= 0) || matches!(n, NumLit::Big(_)) || {
            // everything else renders with its own parentheses already
            true
        },
        Ex::Index(..) | Ex::Slice(..) | Ex::Call(..) | Ex::Update(..) => true,
        Ex::EvalOf(_) | Ex::EvalText(_) | Ex::Splat(_) => true,
        _ => false,
    }
}

/// a logical connective without its own outer parentheses
fn bare(e: &Ex) -> String {
    let r = render(e);
    debug_assert!(r.starts_with('(') && r.ends_with(')'), "{}", r);
    r[1..r.len() - 1].to_string()
}

/// render so that the result can stand anywhere a single operand can
pub fn atom(e: &Ex) -> String {
    if is_atomic(e) {
        render(e)
    } else {
        let r = render(e);
        // every non-atomic form renders with its own outer parentheses
        debug_assert!(r.starts_with('('), "{}", r);
        r
    }
}

fn render_ix(ix: &Ix) -> String {
    match ix {
        Ix::Index(e) => format!("[{}]", atom(e)),
        Ix::Slice(a, b) => format!(
            "[{}:{}]",
            a.as_ref().map(atom).unwrap_or_default(),
            b.as_ref().map(atom).unwrap_or_default()
        ),
    }
}

/// `nested`: inside a comma sequence or call-like pattern, where an annotation needs parentheses
pub fn render_lv(l: &Lv, nested: bool) -> String {
    match l {
        Lv::Underscore => "_".to_string(),
        Lv::Ident(s, ixs) => {
            let mut out = s.clone();
            for ix in ixs {
                out.push_str(&render_ix(ix));
            }
            out
        }
        Lv::Annot(inner, None) => format!("({}:)", render_lv(inner, true)),
        Lv::Annot(inner, Some(t)) => format!("({}: {})", render_lv(inner, true), atom(t)),
        Lv::Default(inner, d) => format!("{} = {}", render_lv(inner, true), atom(d)),
        Lv::Seq(xs, bracket) => {
            let inner = if xs.len() == 1 {
                format!("{},", render_lv(&xs[0], true))
            } else {
                xs.iter().map(|x| render_lv(x, true)).collect::<Vec<_>>().join(", ")
            };
            if *bracket {
                format!("[{}]", inner)
            } else if nested {
                format!("({})", inner)
            } else {
                inner
            }
        }
        Lv::Splat(inner) => format!("...{}", render_lv(inner, true)),
        Lv::Or(a, b) => format!("({} or {})", render_lv(a, true), render_lv(b, true)),
        Lv::And(a, b) => format!("({} and {})", render_lv(a, true), render_lv(b, true)),
        // a literal pattern is written as the literal; any other expression needs `literally`
        Lv::Lit(e) => match &**e {
            Ex::Num(NumLit::Int(n)) if *n >= 0 => atom(e),
            Ex::Str(_) => atom(e),
            _ => format!("(literally {})", atom(e)),
        },
        // a builtin operator with two operands is written infix, the way such patterns are used
        // (`h .+ t`, `n + 1`, `a / b`); prepend chains nested to the right and append chains nested
        // to the left are written without inner parentheses (`a .+ b .+ t`, `xs +. y +. z`), so the
        // operators' associativity is part of what is checked
        Lv::Destructure(f, args) if args.len() == 2 && matches!(&**f, Ex::Var(n) if !n.chars().next().map_or(false, |c| c.is_ascii_uppercase())) => {
            let op = match &**f {
                Ex::Var(n) => n.clone(),
                _ => unreachable!(),
            };
            let same_op = |l: &Lv| matches!(l, Lv::Destructure(g, a2) if a2.len() == 2 && **g == Ex::Var(op.clone()));
            let strip = |t: String| t[1..t.len() - 1].to_string();
            let l = render_lv(&args[0], true);
            let r = render_lv(&args[1], true);
            let l = if op == "+." && same_op(&args[0]) { strip(l) } else { l };
            let r = if op == ".+" && same_op(&args[1]) { strip(r) } else { r };
            format!("({} {} {})", l, op, r)
        }
        Lv::Destructure(f, args) => format!(
            "{}({})",
            atom(f),
            args.iter().map(|x| render_lv(x, true)).collect::<Vec<_>>().join(", ")
        ),
        Lv::Cmp(args, ops) => {
            let mut out = String::from("(");
            for (i, a) in args.iter().enumerate() {
                if i > 0 {
                    out.push_str(&format!(" {} ", ops[i - 1]));
                }
                out.push_str(&render_lv(a, true));
            }
            out.push(')');
            out
        }
    }
}

fn render_clause(c: &Clause) -> String {
    match c {
        Clause::Each(l, e) => format!("{} <- {}", render_lv(l, false), atom(e)),
        Clause::Pairs(l, e) => format!("{} <<- {}", render_lv(l, false), atom(e)),
        Clause::Decl(l, e) => match l {
            Lv::Ident(..) => format!("{} := {}", render_lv(l, false), atom(e)),
            _ => format!("{} := {}", render_lv(l, false), atom(e)),
        },
        Clause::Guard(e) => format!("if {}", atom(e)),
    }
}

fn render_rhs(e: &Ex) -> String {
    match e {
        Ex::CommaSeq(xs) => {
            if xs.len() == 1 {
                format!("{},", atom(&xs[0]))
            } else {
                xs.iter().map(atom).collect::<Vec<_>>().join(", ")
            }
        }
        e => atom(e),
    }
}

/// statement forms (assignments and friends) without outer parentheses
fn render_stmt(e: &Ex) -> Option<String> {
    Some(match e {
        Ex::Assign(every, l, rhs) => {
            let ev = if *every { "every " } else { "" };
            match &**l {
                Lv::Annot(inner, None) => {
                    format!("{}{} := {}", ev, render_lv(inner, false), render_rhs(rhs))
                }
                Lv::Annot(inner, Some(t)) => {
                    format!("{}{}: {} = {}", ev, render_lv(inner, false), atom(t), render_rhs(rhs))
                }
                l => format!("{}{} = {}", ev, render_lv(l, false), render_rhs(rhs)),
            }
        }
        Ex::OpAssign(every, l, op, rhs) => {
            let ev = if *every { "every " } else { "" };
            let lhs = match &**l {
                // `(d[k] = dflt) f= v`
                Lv::Default(..) => format!("({})", render_lv(l, false)),
                _ => render_lv(l, false),
            };
            format!("{}{} {}= {}", ev, lhs, op, render_rhs(rhs))
        }
        Ex::Swap(a, b) => format!("swap {}, {}", render_lv(a, true), render_lv(b, true)),
        Ex::StructDef(name, fields) => format!(
            "struct {} ({})",
            name,
            fields
                .iter()
                .map(|(f, d)| match d {
                    Some(d) => format!("{} = {}", f, atom(d)),
                    None => f.clone(),
                })
                .collect::<Vec<_>>()
                .join(", ")
        ),
        _ => return None,
    })
}

pub fn render(e: &Ex) -> String {
    if let Some(s) = render_stmt(e) {
        return format!("({})", s);
    }
    match e {
        Ex::Null => "null".to_string(),
        Ex::Num(n) => render_num(n),
        Ex::Str(s) => escape_str(s),
        Ex::Var(s) => s.clone(),
        Ex::List(xs) => format!("[{}]", xs.iter().map(atom).collect::<Vec<_>>().join(", ")),
        Ex::Dict(def, kvs) => {
            let mut parts = Vec::new();
            if let Some(d) = def {
                parts.push(format!(":{}", atom(d)));
            }
            for (k, v) in kvs {
                match v {
                    Some(v) => parts.push(format!("{}: {}", atom(k), atom(v))),
                    None => parts.push(atom(k)),
                }
            }
            format!("{{{}}}", parts.join(", "))
        }
        Ex::Index(x, i) => format!("{}[{}]", atom(x), atom(i)),
        Ex::Slice(x, a, b) => format!(
            "{}[{}:{}]",
            atom(x),
            a.as_ref().map(|e| atom(e)).unwrap_or_default(),
            b.as_ref().map(|e| atom(e)).unwrap_or_default()
        ),
        // unary minus on a literal, written the way it is written by hand
        Ex::Call(f, args)
            if **f == Ex::Var("-".to_string()) && args.len() == 1 && matches!(&args[0], Ex::Num(NumLit::Int(n)) if *n >= 0) =>
        {
            format!("(-{})", atom(&args[0]))
        }
        Ex::Call(f, args) => format!(
            "{}({})",
            atom(f),
            args.iter().map(atom).collect::<Vec<_>>().join(", ")
        ),
        Ex::Splat(inner) => format!("...{}", atom(inner)),
        Ex::Bin(l, op, r) => format!("({} {} {})", atom(l), op, atom(r)),
        Ex::Chain(first, rest) => {
            let mut out = format!("({}", atom(first));
            for (op, e) in rest {
                out.push_str(&format!(" {} {}", op, atom(e)));
            }
            out.push(')');
            out
        }
        Ex::Update(x, kvs) => format!(
            "{}{{{}}}",
            atom(x),
            kvs.iter()
                .map(|(k, v)| format!("{} = {}", atom(k), atom(v)))
                .collect::<Vec<_>>()
                .join(", ")
        ),
        // `and` binds tighter than `or` and `coalesce`, which share one level and associate to the
        // left: operands that the grammar groups the same way by itself are written without their
        // own parentheses, so that the documented precedence is part of what is checked
        Ex::And(a, b) => {
            let l = if matches!(&**a, Ex::And(..)) { bare(a) } else { atom(a) };
            format!("({} and {})", l, atom(b))
        }
        Ex::Or(a, b) | Ex::Coalesce(a, b) => {
            let word = if matches!(e, Ex::Or(..)) { "or" } else { "coalesce" };
            let l = if matches!(&**a, Ex::And(..) | Ex::Or(..) | Ex::Coalesce(..)) { bare(a) } else { atom(a) };
            let r = if matches!(&**b, Ex::And(..)) { bare(b) } else { atom(b) };
            format!("({} {} {})", l, word, r)
        }
        Ex::Seq(xs, trailing) => {
            let body = xs.iter().map(render_in_seq).collect::<Vec<_>>().join("; ");
            if *trailing {
                format!("({};)", body)
            } else {
                format!("({})", body)
            }
        }
        Ex::If(c, a, b) => match b {
            Some(b) => format!("(if ({}) {} else {})", render_in_seq(c), atom(a), atom(b)),
            None => format!("(if ({}) {})", render_in_seq(c), atom(a)),
        },
        Ex::While(c, b) => format!("(while ({}) {})", render_in_seq(c), atom(b)),
        Ex::For(clauses, body) => {
            let cl = clauses.iter().map(render_clause).collect::<Vec<_>>().join("; ");
            match &**body {
                ForBody::Do(b) => format!("(for ({}) {})", cl, atom(b)),
                ForBody::Yield(b, into) => match into {
                    Some(f) => format!("(for ({}) yield {} into {})", cl, atom(b), atom(f)),
                    None => format!("(for ({}) yield {})", cl, atom(b)),
                },
                ForBody::YieldItem(k, v, into) => match into {
                    Some(f) => {
                        format!("(for ({}) yield {}: {} into {})", cl, atom(k), atom(v), atom(f))
                    }
                    None => format!("(for ({}) yield {}: {})", cl, atom(k), atom(v)),
                },
            }
        }
        Ex::Break(n, v) => {
            let mut s = String::from("(break");
            for _ in 0..*n {
                s.push_str(" break");
            }
            if let Some(v) = v {
                s.push(' ');
                s.push_str(&atom(v));
            }
            s.push(')');
            s
        }
        Ex::Continue(n) => {
            let mut s = String::from("(");
            for _ in 0..*n {
                s.push_str("break ");
            }
            s.push_str("continue)");
            s
        }
        Ex::Return(v) => match v {
            Some(v) => format!("(return {})", atom(v)),
            None => "(return)".to_string(),
        },
        Ex::Try(body, pat, handler) => format!(
            "(try {} catch {} -> {})",
            atom(body),
            render_lv(pat, false),
            atom(handler)
        ),
        Ex::Throw(e) => format!("(throw {})", atom(e)),
        Ex::Lambda(params, body) => {
            if params.is_empty() {
                format!("(\\ -> {})", atom(body))
            } else {
                format!(
                    "(\\{} -> {})",
                    params.iter().map(|p| render_lv(p, true)).collect::<Vec<_>>().join(", "),
                    atom(body)
                )
            }
        }
        Ex::Switch(scrut, arms) => {
            let mut s = format!("(switch ({})", render_in_seq(scrut));
            for (p, b) in arms {
                s.push_str(&format!(" case {} -> {}", render_lv(p, false), atom(b)));
            }
            s.push(')');
            s
        }
        Ex::CommaSeq(xs) => format!("({})", xs.iter().map(atom).collect::<Vec<_>>().join(", ")),
        Ex::Pop(l) => format!("(pop {})", render_lv(l, true)),
        Ex::Remove(l) => format!("(remove {})", render_lv(l, true)),
        Ex::Consume(l) => format!("(consume {})", render_lv(l, true)),
        Ex::Freeze(e) => format!("(freeze {})", atom(e)),
        Ex::EvalOf(inner) => format!("eval({})", escape_str(&render_top(inner))),
        Ex::EvalText(t) => format!("eval({})", escape_str(t)),
        Ex::Assign(..) | Ex::OpAssign(..) | Ex::Swap(..) | Ex::StructDef(..) => unreachable!(),
    }
}

/// inside `( ...; ... )` or a condition: statements do not need their own parentheses
fn render_in_seq(e: &Ex) -> String {
    match render_stmt(e) {
        Some(s) => s,
        None => render(e),
    }
}

/// a session line: one `parse()` call
pub fn render_top(e: &Ex) -> String {
    render_in_seq(e)
}
