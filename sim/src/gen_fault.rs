// Profile `sweep` (C14 part b): every global builtin found in the live Env, applied to tuples of
// 0..3 arguments from a pool covering all value kinds and boundary values. No reference model is
// needed for the calls themselves: the oracle is "value or catchable error, never a crash; the
// enclosing try/catch receives it; session variables keep their values; the session stays usable".

use crate::gen_common::*;
use crate::ir::*;
use crate::rng::Rng;
use crate::run::{RunCfg, Script};
use std::sync::OnceLock;

pub struct FaultOut {
    pub script: Script,
    pub kinds: Vec<String>,
    pub nontrivial: bool,
}

/// builtins that touch files, processes, the network, the clock, sleep or randomness (scoped out by
/// the property itself), plus wasm-only display hooks
pub const DENY: &[&str] = &[
    "read_file", "read_file?", "read_file_bytes", "read_file_bytes?", "list_files", "write_file",
    "append_file", "run_process", "time", "now", "sleep", "random", "random_bytes", "random_range",
    "shuffle", "choose", "request", "request_bytes", "request_json", "display", "console_log",
    "par_each", "par_map",
    // print the Debug form of values, which includes process-global struct ids: their output would
    // differ between a batch and its replay in a fresh process
    "debug", "__internal_debug",
];

/// (builtin, reason): combinations whose running time or memory grows with the *magnitude* of an
/// integer argument; they terminate but astronomically late, so huge integers are kept away from
/// them (DESIGN section 5, C14 guard rails)
pub const SIZE_SENSITIVE: &[&str] = &[
    "^", "<<", ">>", "**", ".*", "*.", "*$", "$*", "^^", "factorize", "is_prime", "til", "to", "iota",
    "repeat", "cycle", "take", "drop", "window", "group", "group'", "permutations", "combinations",
    "subsequences", "random_bytes", "gcd", "lcm", "factorial", "!", "b_spline",
    "rearrange", "round", "prefixes", "suffixes", "***", "&&&", "lazy_zip", "zip", "ziplongest", "merge",
    "iterate", "lazy_map", "lazy_filter", "pairwise", "only", "sort", "unique", "sum", "product", "by", "×",
];

pub fn global_names() -> &'static Vec<String> {
    static NAMES: OnceLock<Vec<String>> = OnceLock::new();
    NAMES.get_or_init(|| {
        let mut env = noulith::Env::empty();
        noulith::initialize(&mut env);
        let mut names: Vec<String> = env.vars.keys().cloned().collect();
        names.sort();
        names.retain(|n| !DENY.contains(&n.as_str()));
        // callable through the ordinary call syntax `name(args)`
        names.retain(|n| {
            let src = format!("{}()", n);
            matches!(noulith::parse(&src), Ok(Some(_)))
        });
        names
    })
}

/// the argument pool: (variable name, defining expression, is_huge_int, models?)
pub fn pool() -> Vec<(String, Ex, bool)> {
    let mut v: Vec<(Ex, bool)> = Vec::new();
    let f = |x: f64| Ex::Num(NumLit::Float(x.to_bits()));
    v.push((Ex::Null, false));
    v.push((int(0), false));
    v.push((int(1), false));
    v.push((int(-1), false));
    v.push((int(2), false));
    v.push((int(7), false));
    v.push((int(255), false));
    v.push((Ex::Num(NumLit::Pow2(63)), true));
    v.push((bin(int(0), "-", Ex::Num(NumLit::Pow2(63))), true));
    v.push((Ex::Num(NumLit::Pow2(64)), true));
    v.push((Ex::Num(NumLit::Big("9223372036854775807".into())), true));
    // the least 64-bit integer, reached by small-integer arithmetic
    v.push((
        bin(bin(int(0), "-", Ex::Num(NumLit::Big("9223372036854775807".into()))), "-", int(1)),
        true,
    ));
    v.push((Ex::Num(NumLit::Rat(1, 2)), false));
    v.push((Ex::Num(NumLit::Rat(-7, 3)), false));
    v.push((Ex::Num(NumLit::Rat(2, 2)), false));
    v.push((f(0.0), false));
    v.push((f(-0.0), false));
    v.push((f(0.5), false));
    v.push((f(-2.5), false));
    v.push((f(1e300), true));
    v.push((f(f64::INFINITY), true));
    v.push((f(f64::NAN), false));
    v.push((Ex::Num(NumLit::Cx(1, 0)), false));
    v.push((Ex::Num(NumLit::Cx(0, 2)), false));
    v.push((Ex::Str("".into()), false));
    v.push((Ex::Str("a".into()), false));
    v.push((Ex::Str("abc".into()), false));
    v.push((Ex::Str("é λ".into()), false));
    v.push((Ex::Str("12".into()), false));
    v.push((Ex::Str(" -3/4 ".into()), false));
    v.push((Ex::Str("a,b,,c".into()), false));
    v.push((Ex::Str("(".into()), false));
    v.push((Ex::Str("\u{d7ff}".into()), false));
    v.push((Ex::Str("\u{e000}".into()), false));
    v.push((Ex::List(vec![]), false));
    v.push((Ex::List(vec![int(1)]), false));
    v.push((Ex::List(vec![int(3), int(1), int(2)]), false));
    v.push((Ex::List(vec![Ex::List(vec![int(1), int(2)]), Ex::List(vec![int(3), int(4)])]), false));
    v.push((Ex::List(vec![Ex::Str("a".into()), Ex::Str("b".into())]), false));
    v.push((Ex::List(vec![Ex::Null, int(1), Ex::Str("x".into())]), false));
    v.push((Ex::Dict(None, vec![]), false));
    v.push((Ex::Dict(None, vec![(int(1), Some(int(2))), (Ex::Str("a".into()), Some(Ex::Null))]), false));
    v.push((Ex::Dict(Some(Box::new(int(0))), vec![(Ex::Str("k".into()), Some(int(5)))]), false));
    v.push((call("V", vec![]), false));
    v.push((call("V", vec![int(1), int(2)]), false));
    v.push((call("B", vec![]), false));
    v.push((call("B", vec![int(104), int(105)]), false));
    v.push((call("B", vec![int(255), int(254), int(0)]), false));
    v.push((Ex::Lambda(vec![lv("x")], Box::new(var("x"))), false));
    v.push((Ex::Lambda(vec![lv("x"), lv("y")], Box::new(bin(var("x"), "+", var("y")))), false));
    v.push((Ex::Lambda(vec![], Box::new(int(1))), false));
    v.push((Ex::Lambda(vec![lv("x")], Box::new(bin(var("x"), ">", int(1)))), false));
    v.push((Ex::Lambda(vec![lv("x")], Box::new(int(0))), false));
    v.push((Ex::Lambda(vec![lv("x")], Box::new(Ex::Throw(Box::new(Ex::Str("cb".into()))))), false));
    // takes any number of arguments, counts its calls in the implementation-only variable `cbn`, throws
    v.push((
        Ex::Lambda(
            vec![Lv::Splat(Box::new(lv("xs")))],
            Box::new(Ex::Seq(
                vec![
                    Ex::OpAssign(false, Box::new(lv("cbn")), "+".into(), Box::new(int(1))),
                    Ex::Throw(Box::new(Ex::Str("cb".into()))),
                ],
                false,
            )),
        ),
        false,
    ));
    v.push((var("len"), false));
    v.push((var("+"), false));
    v.push((var("int"), false));
    v.push((var("str"), false));
    v.push((call("Pt", vec![int(1), Ex::List(vec![int(2)])]), false));
    // streams: finite, wrapped, lazily mapped, infinite
    v.push((bin(int(1), "to", int(3)), false));
    v.push((call("stream", vec![Ex::List(vec![int(1), int(2)])]), false));
    v.push((bin(bin(int(1), "to", int(4)), "lazy_map", Ex::Lambda(vec![lv("x")], Box::new(bin(var("x"), "*", int(2))))), false));
    v.push((call("permutations", vec![Ex::List(vec![int(1), int(2), int(3)])]), false));
    // values that run code which prints when they are used: a closure, a lazy stream, and a
    // closure returning such a stream (re-entrancy on the output seam inside builtins)
    let printing = |p: &str| Ex::Lambda(vec![lv(p)], Box::new(Ex::Seq(vec![call("print", vec![var(p)]), var(p)], false)));
    v.push((printing("x"), false));
    v.push((bin(bin(int(1), "to", int(3)), "lazy_map", printing("y")), false));
    v.push((
        Ex::Lambda(vec![lv("x")], Box::new(bin(bin(int(1), "to", int(2)), "lazy_map", printing("y")))),
        false,
    ));
    // zero-step ranges: empty when start >= end, otherwise endless
    v.push((call("til", vec![int(3), int(1), int(0)]), false));
    v.push((call("til", vec![int(1), int(3), int(0)]), false));
    v.push((call("iota", vec![int(0)]), false));
    v.push((call("repeat", vec![int(1)]), false));
    v.push((call("cycle", vec![Ex::List(vec![int(1), int(2)])]), false));
    v.into_iter()
        .enumerate()
        .map(|(i, (e, h))| (format!("a{}", i), e, h))
        .collect()
}

/// fixed statements next to the grid: counts that are huge but fit a machine word applied to
/// short finite sequences and streams (must return at once), and failing unpack / call / switch
/// statements whose error message quotes a long value of multi-byte characters at every
/// alignment (the message is built, clipped and handed to `catch`)
fn stress_probes() -> Vec<Ex> {
    let big = || Ex::Num(NumLit::Pow2(62));
    let rng13 = || call("to", vec![int(1), int(3)]);
    let l123 = || Ex::List(vec![int(1), int(2), int(3)]);
    let mut v = vec![
        call("drop", vec![rng13(), big()]),
        call("drop", vec![l123(), big()]),
        call("take", vec![rng13(), big()]),
        call("take", vec![l123(), big()]),
        call("drop", vec![Ex::Str("abc".into()), big()]),
        Ex::Slice(Box::new(rng13()), Some(Box::new(big())), None),
        Ex::Slice(Box::new(l123()), Some(Box::new(big())), None),
        Ex::Slice(Box::new(call("stream", vec![l123()])), Some(Box::new(big())), None),
        Ex::Slice(Box::new(call("permutations", vec![Ex::List(vec![int(1), int(2)])])), Some(Box::new(big())), None),
        call("list", vec![call("drop", vec![call("to", vec![int(1), int(5)]), big()])]),
    ];
    for prefix in ["", "a", "aa"] {
        for (ch, k) in [("é", 150), ("€", 100)] {
            let long = || bin(Ex::Str(prefix.into()), "$", bin(Ex::Str(ch.into()), "$*", int(k)));
            // too few items for the targets, in a fresh scope
            v.push(Ex::Call(
                Box::new(Ex::Lambda(
                    vec![],
                    Box::new(Ex::Assign(
                        false,
                        Box::new(Lv::Annot(Box::new(Lv::Seq(vec![lv("ua"), lv("ub")], false)), None)),
                        Box::new(Ex::List(vec![long()])),
                    )),
                )),
                vec![],
            ));
            // too few arguments
            v.push(Ex::Call(
                Box::new(Ex::Lambda(vec![lv("ua"), lv("ub")], Box::new(var("ua")))),
                vec![long()],
            ));
            // no arm matches
            v.push(Ex::Switch(Box::new(long()), vec![(Lv::Lit(Box::new(int(1))), int(2))]));
        }
    }
    v
}

fn liveness_probe() -> Ex {
    // declare, mutate, loop, call a closure, print -- in a fresh scope so it can run many times
    let body = Ex::Seq(
        vec![
            declare("p", Ex::List(vec![int(1), int(2)])),
            Ex::OpAssign(false, Box::new(lv("p")), "append".into(), Box::new(int(3))),
            declare("q", int(0)),
            Ex::For(
                vec![Clause::Each(lv("x"), var("p"))],
                Box::new(ForBody::Do(Ex::OpAssign(false, Box::new(lv("q")), "+".into(), Box::new(var("x"))))),
            ),
            declare("g", Ex::Lambda(vec![lv("y")], Box::new(bin(var("y"), "*", int(2))))),
            call("print", vec![var("q")]),
            call("g", vec![var("q")]),
        ],
        false,
    );
    Ex::Call(Box::new(Ex::Lambda(vec![], Box::new(body))), vec![])
}

pub const CHUNK: usize = 120;

/// pool entries that are infinite streams (the last four)
pub fn is_infinite_entry(pool_len: usize, i: usize) -> bool {
    i + 4 >= pool_len
}

/// builtins that must consume their stream argument: with an infinite stream they do not terminate
/// or exhaust memory, which the property's own quantifier excludes ("infinite streams excluded
/// where the callee must consume them"). Found by `tools/probe_inf.sh` (each builtin run in a
/// memory- and time-limited child process on every tuple containing an infinite stream).
pub const INF_UNSAFE: &[&str] = &include!("inf_unsafe.in");

/// number of sessions needed to walk the arity<=2 grid of one builtin completely
pub fn parts_per_builtin() -> u64 {
    let p = pool().len();
    let tuples = 1 + p + p * p;
    ((tuples + CHUNK - 1) / CHUNK) as u64
}

/// `index` selects the builtin and which part of its argument grid this session walks.
/// `exhaustive`: parts enumerate the arity<=2 grid in order; otherwise part 0 is arity 0/1 and the
/// other parts are seeded samples (arity 2 and 3).
#[derive(Clone, Copy, PartialEq)]
pub enum InfMode {
    /// infinite streams only for builtins not listed in INF_UNSAFE
    AllowSafe,
    /// only tuples that contain an infinite stream, for every builtin (probing tool)
    OnlyInf,
}

pub fn generate(seed: u64, index: u64, exhaustive: bool) -> FaultOut {
    generate_mode(seed, index, exhaustive, InfMode::AllowSafe)
}

pub fn generate_mode(seed: u64, index: u64, exhaustive: bool, inf: InfMode) -> FaultOut {
    let names = global_names();
    let nb = names.len() as u64;
    let fname = names[(index % nb) as usize].clone();
    let part = index / nb;
    let mut rng = Rng::new(seed);
    let cfg = RunCfg {
        hash_seed: rng.next(),
        fuel: 300_000,
        // the reading builtins see three lines (one of them not ASCII) again and again
        input: "ab\n12\n\u{3bb}x\n".as_bytes().to_vec(),
        in_rewind: true,
        in_one_byte: rng.chance(1, 2),
        ..RunCfg::default()
    };
    let mut g = Gen::new(seed, cfg);
    let pool = pool();
    let p = pool.len();
    let size_sensitive = SIZE_SENSITIVE.contains(&fname.as_str());

    let _ = g.push(
        "struct",
        Ex::StructDef("Pt".into(), vec![("px".into(), None), ("py".into(), Some(int(7)))]),
        vec![],
    );
    g.push_outcome_only("declare-callback-counter", declare("cbn", int(0)), vec![], false);
    let mut thrower: Option<String> = None;
    for (name, e, _) in pool.iter() {
        // lazy values whose callbacks print are kept out of the model: observing them would run
        // the callbacks
        let text = crate::ir::render(e);
        if text.contains("cbn += 1") {
            thrower = Some(name.clone());
        }
        let effectful = text.contains("lazy_map (\\y -> (print") || text.contains("cbn += 1");
        if effectful || g.push("declare-pool", declare(name, e.clone()), vec![]).is_err() {
            // the model cannot represent this pool value: declare it implementation-only
            g.push_outcome_only("declare-pool-unmodelled", declare(name, e.clone()), vec![], false);
        }
    }

    // argument tuples for this session
    let mut tuples: Vec<Vec<usize>> = Vec::new();
    if exhaustive {
        let total = 1 + p + p * p;
        let lo = (part as usize) * CHUNK;
        let hi = (lo + CHUNK).min(total);
        for t in lo..hi {
            if t == 0 {
                tuples.push(vec![]);
            } else if t <= p {
                tuples.push(vec![t - 1]);
            } else {
                let k = t - 1 - p;
                tuples.push(vec![k / p, k % p]);
            }
        }
    } else if part == 0 {
        tuples.push(vec![]);
        for i in 0..p {
            tuples.push(vec![i]);
        }
    } else if part == 1 {
        // every pair over a core sub-pool: null, small ints, a fraction, a float, strings, lists, a
        // dict, a vector, bytes, closures
        let core: Vec<usize> = pool
            .iter()
            .enumerate()
            .filter(|(_, (_, e, _))| {
                matches!(
                    crate::ir::render(e).as_str(),
                    "null" | "0" | "1" | "(0-1)" | "2" | "7" | "(1/2)" | "0.5" | "\"\"" | "\"abc\"" | "\"12\"" | "[]"
                        | "((0 - 9223372036854775807) - 1)" | "(2^63)"
                        | "[3, 1, 2]" | "[\"a\", \"b\"]" | "{1: 2, \"a\": null}" | "V(1, 2)" | "B(104, 105)"
                        | "(\\x -> x)" | "(\\x, y -> (x + y))" | "to(1, 3)"
                )
            })
            .map(|(i, _)| i)
            .collect();
        for a in core.iter() {
            for b in core.iter() {
                tuples.push(vec![*a, *b]);
            }
        }
    } else if part == 2 {
        // (a, b, f): two data arguments from a mini-core (with infinite streams) and a callback
        let pick = |texts: &[&str]| -> Vec<usize> {
            pool.iter()
                .enumerate()
                .filter(|(_, (_, e, _))| texts.contains(&crate::ir::render(e).as_str()))
                .map(|(i, _)| i)
                .collect()
        };
        let data = pick(&["null", "2", "\"abc\"", "\"a\"", "[3, 1, 2]", "{1: 2, \"a\": null}", "to(1, 3)", "iota(0)", "repeat(1)"]);
        let mut funcs = pick(&["+", "(\\x -> x)", "(\\x, y -> (x + y))"]);
        if let Some(t) = &thrower {
            funcs.extend(pool.iter().enumerate().filter(|(_, (n, _, _))| n == t).map(|(i, _)| i));
        }
        for a in data.iter() {
            for b in data.iter() {
                for f in funcs.iter() {
                    tuples.push(vec![*a, *b, *f]);
                }
            }
            for f in funcs.iter() {
                tuples.push(vec![*a, *f]);
                tuples.push(vec![*f, *a]);
            }
        }
    } else {
        for _ in 0..CHUNK {
            if rng.chance(2, 3) {
                tuples.push(vec![rng.below(p), rng.below(p)]);
            } else {
                tuples.push(vec![rng.below(p), rng.below(p), rng.below(p)]);
            }
        }
    }

    let mut n_calls = 0;
    for t in tuples {
        if size_sensitive && t.iter().any(|i| pool[*i].2) {
            continue;
        }
        let has_inf = t.iter().any(|i| is_infinite_entry(p, *i));
        match inf {
            InfMode::AllowSafe => {
                if has_inf && INF_UNSAFE.contains(&fname.as_str()) {
                    continue;
                }
            }
            InfMode::OnlyInf => {
                if !has_inf {
                    continue;
                }
            }
        }
        let args: Vec<Ex> = t.iter().map(|i| var(&pool[*i].0)).collect();
        let c = Ex::Call(Box::new(var(&fname)), args);
        // (a call handed the counting thrower is never wrapped: whether its error comes out is
        // what is observed)
        let has_thrower = thrower.as_ref().map_or(false, |tn| t.iter().any(|i| &pool[*i].0 == tn));
        let wrapped = (n_calls % 2) == 1 && !has_thrower;
        let must_terminate = !has_inf;
        if wrapped {
            let e = Ex::Try(Box::new(c), Box::new(lv("e")), Box::new(Ex::Str("caught".into())));
            g.push_outcome_only_t("call-in-try", e, vec![], true, must_terminate);
        } else {
            g.push_outcome_only_t("call", c, vec![], false, must_terminate);
            if let Some(tn) = &thrower {
                if t.iter().any(|i| &pool[*i].0 == tn) {
                    let st = g.script.stmts.last_mut().unwrap();
                    st.swallow_probe = Some("cbn".to_string());
                    st.swallow_thrower = Some(tn.clone());
                }
            }
        }
        n_calls += 1;
        if n_calls % 30 == 0 {
            let _ = g.push("liveness-probe", liveness_probe(), vec![]);
        }
    }
    if part == 0 {
        for e in stress_probes() {
            let e = Ex::Try(Box::new(e), Box::new(lv("e")), Box::new(Ex::Str("caught".into())));
            g.push_outcome_only_t("stress-probe", e, vec![], true, true);
        }
    }
    let _ = g.push("liveness-probe", liveness_probe(), vec![]);
    let nontrivial = n_calls > 0;
    FaultOut {
        script: g.take_script(),
        kinds: std::mem::take(&mut g.kinds),
        nontrivial,
    }
}
