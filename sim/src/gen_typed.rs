// Profile `typed` (C12, stateful clauses): variables declared with type annotations, then histories
// of every assignment form that can touch them with well- and ill-typed right-hand sides;
// destructuring with splats and defaults; switch with overlapping arms; pattern forms in lambda
// parameters, for clauses and catch. The invariant `x is T` is asked in the session itself.

use crate::gen_common::*;
use crate::ir::*;
use crate::model::Model;
use crate::rng::Rng;
use crate::run::{RunCfg, Script};
use crate::val::*;

pub struct TypedOut {
    pub script: Script,
    pub kinds: Vec<String>,
    pub nontrivial: bool,
}

fn fl(x: f64) -> Ex {
    Ex::Num(NumLit::Float(x.to_bits()))
}

/// (type expression, a generator tag)
const TYPES: &[&str] = &[
    "int", "float", "rational", "number", "str", "list", "dict", "vector", "bytes", "func", "anything",
    "nulltype", "Pt", "small", "stream", "head1", "nonempty",
];

fn value_of(g: &mut Gen, ty: &str) -> Ex {
    match ty {
        "int" => g.small_int(),
        "float" => fl(*g.rng.pick(&[0.5, 1.0, -2.5, 0.0])),
        "rational" => Ex::Num(NumLit::Rat(g.rng.range(-5, 5), *g.rng.pick(&[2, 3, 7]))),
        "number" => match g.rng.below(4) {
            0 => g.small_int(),
            1 => fl(1.5),
            2 => Ex::Num(NumLit::Rat(1, 3)),
            _ => Ex::Num(NumLit::Cx(1, 2)),
        },
        "str" => g.string(),
        "list" => {
            let n = g.rng.below(4);
            Ex::List((0..n).map(|_| int(g.rng.range(0, 9))).collect())
        }
        "dict" => {
            let k = g.key_lit();
            Ex::Dict(None, vec![(k, Some(int(1)))])
        }
        "vector" => {
            let n = 1 + g.rng.below(4);
            call("V", (0..n).map(|k| int(k as i64 + g.rng.range(0, 3))).collect())
        }
        "bytes" => {
            let n = 1 + g.rng.below(4);
            call("B", (0..n).map(|_| int(g.rng.range(0, 255))).collect())
        }
        "func" => Ex::Lambda(vec![lv("z")], Box::new(var("z"))),
        "nulltype" => Ex::Null,
        "Pt" => call("Pt", vec![int(g.rng.range(0, 5)), int(2)]),
        "small" => int(g.rng.range(0, 9)),
        "head1" => {
            let n = g.rng.below(3);
            let mut xs = vec![int(1)];
            xs.extend((0..n).map(|_| int(g.rng.range(0, 9))));
            Ex::List(xs)
        }
        "stream" => Ex::Call(Box::new(var("to")), vec![int(1), int(g.rng.range(0, 3))]),
        "nonempty" => {
            let n = 1 + g.rng.below(3);
            Ex::List((0..n).map(|_| int(g.rng.range(0, 9))).collect())
        }
        _ => {
            // anything
            let t = *g.rng.pick(&["int", "str", "list", "nulltype", "float", "dict"]);
            value_of(g, t)
        }
    }
}

fn wrong_value_of(g: &mut Gen, ty: &str) -> Ex {
    // a value of some other type (may accidentally fit `number`/`anything`/`small`)
    let other = loop {
        let t = *g.rng.pick(TYPES);
        if t != ty && t != "anything" {
            break t;
        }
    };
    match ty {
        "small" => int(g.rng.range(10, 30)),
        "nonempty" if g.rng.chance(1, 2) => Ex::List(vec![]),
        _ => value_of(g, other),
    }
}

pub fn generate(seed: u64, fault_free: bool) -> TypedOut {
    let mut pre = Rng::new(seed ^ 0x7e9d);
    let cfg = RunCfg {
        hash_seed: pre.next(),
        allow_redecl: pre.chance(1, 5),
        ..RunCfg::default()
    };
    let mut g = Gen::new(seed, cfg);
    let mut nontrivial = false;
    let n_ops = 10 + g.rng.below(22);
    let ill_den = if fault_free { 0 } else { 3 };

    if g.push(
        "struct",
        Ex::StructDef("Pt".into(), vec![("px".into(), None), ("py".into(), Some(int(7)))]),
        vec![],
    )
    .is_err()
    {
        return finish(g, nontrivial);
    }
    // a second struct with the same number of fields: its instances must not match `Pt(a, b)`
    if g.push(
        "struct",
        Ex::StructDef("Qt".into(), vec![("qx".into(), None), ("qy".into(), Some(int(8)))]),
        vec![],
    )
    .is_err()
    {
        return finish(g, nontrivial);
    }
    // `small`: a satisfying type
    let small = call(
        "satisfying",
        vec![Ex::Lambda(
            vec![lv("q")],
            Box::new(Ex::And(
                Box::new(bin(var("q"), "is", var("int"))),
                Box::new(bin(var("q"), "<", int(10))),
            )),
        )],
    );
    if g.push("satisfying-type", declare("small", small), vec![]).is_err() {
        return finish(g, nontrivial);
    }

    // `head1`: a satisfying type over a container's contents, so that an indexed assignment can only
    // be checked after the write
    let head1 = call(
        "satisfying",
        vec![Ex::Lambda(
            vec![lv("q")],
            Box::new(Ex::And(
                Box::new(bin(var("q"), "is", var("list"))),
                Box::new(bin(bin(var("q"), "!?", int(0)), "==", int(1))),
            )),
        )],
    );
    if g.push("satisfying-type", declare("head1", head1), vec![]).is_err() {
        return finish(g, nontrivial);
    }

    // `nonempty`: a satisfying type whose predicate answers with the list itself (truthy when it has
    // elements) rather than with 0/1
    let nonempty = call(
        "satisfying",
        vec![Ex::Lambda(
            vec![lv("q")],
            Box::new(Ex::And(Box::new(bin(var("q"), "is", var("list"))), Box::new(var("q")))),
        )],
    );
    if g.push("satisfying-type", declare("nonempty", nonempty), vec![]).is_err() {
        return finish(g, nontrivial);
    }

    // annotated variables: (name, type tag)
    let mut tvars: Vec<(String, String)> = Vec::new();
    let n_vars = 2 + g.rng.below(4);
    for _ in 0..n_vars {
        let ty = g.rng.pick(TYPES).to_string();
        let name = g.fresh("t");
        let ill = ill_den > 0 && g.rng.chance(1, 6);
        let v = if ill { wrong_value_of(&mut g, &ty) } else { value_of(&mut g, &ty) };
        let e = Ex::Assign(
            false,
            Box::new(Lv::Annot(Box::new(lv(&name)), Some(Box::new(var(&ty))))),
            Box::new(v),
        );
        match g.push("typed-declare", e, vec![]) {
            Ok(Ok(_)) => tvars.push((name, ty)),
            Ok(Err(())) => {}
            Err(_) => return finish(g, nontrivial),
        }
    }
    if tvars.is_empty() {
        return finish(g, nontrivial);
    }

    let mut attempts = 0;
    while g.script.stmts.len() < n_ops && attempts < 300 {
        attempts += 1;
        let (name, ty) = g.rng.pick(&tvars).clone();
        let ill = ill_den > 0 && g.rng.chance(1, ill_den);
        let cur = match Model::lookup(&g.model.top, &name) {
            Some(v) => v,
            None => continue,
        };
        let choice = g.rng.weighted(&[10, 8, 8, 5, 5, 6, 5, 6, 6, 5, 4, 4]);
        let r = match choice {
            0 => {
                nontrivial = true;
                let v = if ill { wrong_value_of(&mut g, &ty) } else { value_of(&mut g, &ty) };
                g.push("assign", Ex::Assign(false, Box::new(lv(&name)), Box::new(v)), vec![])
            }
            1 => {
                // indexed assignment: the type is checked after the write ("late")
                match &cur {
                    V::List(xs) if !xs.is_empty() => {
                        let i = if ty == "head1" && g.rng.chance(1, 2) { 0 } else { g.rng.below(xs.len()) as i64 };
                        let v = wrong_value_of(&mut g, "list");
                        g.push(
                            "index-assign",
                            Ex::Assign(
                                false,
                                Box::new(Lv::Ident(name, vec![Ix::Index(int(i))])),
                                Box::new(v),
                            ),
                            vec![],
                        )
                    }
                    V::Dict(_) => {
                        let k = g.key_lit();
                        g.push(
                            "index-assign",
                            Ex::Assign(false, Box::new(Lv::Ident(name, vec![Ix::Index(k)])), Box::new(int(3))),
                            vec![],
                        )
                    }
                    V::Stream(_) => {
                        // writing into a stream turns it into a list: refused for a variable
                        // annotated `stream`, fine for `anything`
                        let i = int(g.rng.range(0, 2));
                        if g.rng.chance(1, 2) {
                            g.push(
                                "stream-index-assign",
                                Ex::Assign(false, Box::new(Lv::Ident(name, vec![Ix::Index(i)])), Box::new(int(5))),
                                vec![],
                            )
                        } else {
                            g.push(
                                "stream-index-op-assign",
                                Ex::OpAssign(false, Box::new(Lv::Ident(name, vec![Ix::Index(i)])), "+".into(), Box::new(int(1))),
                                vec![],
                            )
                        }
                    }
                    V::Inst(..) => {
                        let v = value_of(&mut g, "anything");
                        g.push(
                            "field-assign",
                            Ex::Assign(
                                false,
                                Box::new(Lv::Ident(name, vec![Ix::Index(var("px"))])),
                                Box::new(v),
                            ),
                            vec![],
                        )
                    }
                    _ => continue,
                }
            }
            2 => {
                // operator assignment: the result must still fit the annotation
                let (op, rhs) = match (&cur, ill) {
                    (V::Int(_), false) => ("+".to_string(), int(g.rng.range(0, 6))),
                    (V::Int(_), true) => ("$".to_string(), Ex::Str("x".into())),
                    (V::List(_), false) => ("append".to_string(), int(1)),
                    (V::List(_), true) => ("len".to_string(), Ex::Null),
                    (V::Str(_), false) => ("$".to_string(), g.string()),
                    (V::Str(_), true) => ("..".to_string(), int(1)),
                    (V::Dict(_), _) => ("|.".to_string(), g.key_lit()),
                    (V::Null, _) => ("..".to_string(), int(1)),
                    _ => ("..".to_string(), int(2)),
                };
                if op == "len" {
                    // x .= len : applies a one-argument function through `.`
                    nontrivial = true;
                    g.push("dot-assign", Ex::OpAssign(false, Box::new(lv(&name)), ".".into(), Box::new(var("len"))), vec![])
                } else {
                    nontrivial = true;
                    g.push("op-assign", Ex::OpAssign(false, Box::new(lv(&name)), op, Box::new(rhs)), vec![])
                }
            }
            3 => {
                // every-assignment to several variables at once
                let (other, _) = g.rng.pick(&tvars).clone();
                let v = if ill { wrong_value_of(&mut g, &ty) } else { value_of(&mut g, &ty) };
                nontrivial = true;
                g.push(
                    "every-assign",
                    Ex::Assign(true, Box::new(Lv::Seq(vec![lv(&name), lv(&other)], false)), Box::new(v)),
                    vec![],
                )
            }
            4 => {
                // every x .= f : whole-variable modification, type checked
                match &cur {
                    V::Int(_) => {
                        let f = if ill {
                            Ex::Lambda(vec![lv("z"), lv("y")], Box::new(Ex::List(vec![var("z")])))
                        } else {
                            Ex::Lambda(vec![lv("z"), lv("y")], Box::new(bin(var("z"), "+", var("y"))))
                        };
                        let fname = g.fresh("op");
                        if g.push("declare-op", declare(&fname, f), vec![]).is_err() {
                            break;
                        }
                        nontrivial = true;
                        g.push("every-op-assign", Ex::OpAssign(true, Box::new(lv(&name)), fname, Box::new(int(1))), vec![])
                    }
                    V::List(xs) if g.rng.chance(1, 2) => {
                        // every-op-assign through a slice: the whole variable is written back and
                        // must still fit its annotation
                        let hi = g.rng.range(0, xs.len() as i64);
                        let addend = g.rng.range(0, 10);
                        nontrivial = true;
                        g.push(
                            "every-slice-op-assign",
                            Ex::OpAssign(
                                true,
                                Box::new(Lv::Ident(name, vec![Ix::Slice(Some(int(0)), Some(int(hi)))])),
                                "+".into(),
                                Box::new(int(addend)),
                            ),
                            vec![],
                        )
                    }
                    V::List(xs) => {
                        let hi = xs.len() as i64;
                        g.push(
                            "every-slice-assign",
                            Ex::Assign(
                                true,
                                Box::new(Lv::Ident(name, vec![Ix::Slice(Some(int(0)), Some(int(hi)))])),
                                Box::new(int(0)),
                            ),
                            vec![],
                        )
                    }
                    _ => continue,
                }
            }
            5 => {
                // swap: two plain assignments, the second may be refused after the first happened
                let (other, _) = g.rng.pick(&tvars).clone();
                if other == name {
                    continue;
                }
                nontrivial = true;
                g.push("swap", Ex::Swap(Box::new(lv(&name)), Box::new(lv(&other))), vec![])
            }
            6 => {
                // destructuring assignment into annotated variables, with splat / default targets
                let (other, oty) = g.rng.pick(&tvars).clone();
                let v1 = if ill { wrong_value_of(&mut g, &ty) } else { value_of(&mut g, &ty) };
                let v2 = value_of(&mut g, &oty);
                nontrivial = true;
                match g.rng.below(4) {
                    0 => g.push(
                        "destructure",
                        Ex::Assign(
                            false,
                            Box::new(Lv::Seq(vec![lv(&name), lv(&other)], false)),
                            Box::new(Ex::CommaSeq(vec![v1, v2])),
                        ),
                        vec![],
                    ),
                    1 => {
                        // bracketed pattern against a list value, one element too many / few when ill
                        let mut items = vec![v1, v2];
                        if ill {
                            items.push(int(0));
                        }
                        g.push(
                            "destructure-bracket",
                            Ex::Assign(
                                false,
                                Box::new(Lv::Seq(vec![lv(&name), lv(&other)], true)),
                                Box::new(Ex::List(items)),
                            ),
                            vec![],
                        )
                    }
                    2 => {
                        // splat in the middle: a, ...rest, b
                        let rest = g.fresh("r");
                        let n_extra = g.rng.below(3);
                        let mut items = vec![v1];
                        for _ in 0..n_extra {
                            items.push(int(g.rng.range(0, 9)));
                        }
                        if !ill {
                            items.push(v2);
                        }
                        if g.rng.chance(1, 2) {
                            g.push(
                                "destructure-splat",
                                Ex::Assign(
                                    false,
                                    Box::new(Lv::Seq(
                                        vec![
                                            lv(&name),
                                            Lv::Splat(Box::new(Lv::Annot(Box::new(lv(&rest)), None))),
                                            lv(&other),
                                        ],
                                        false,
                                    )),
                                    Box::new(Ex::List(items)),
                                ),
                                vec![],
                            )
                        } else {
                            // a splat followed by a defaulted target, as a lambda parameter list: the
                            // default is used only when the items run out before that position
                            let lam = Ex::Lambda(
                                vec![
                                    lv("pa"),
                                    Lv::Splat(Box::new(lv("pr"))),
                                    Lv::Default(Box::new(lv("pd")), Box::new(int(77))),
                                ],
                                Box::new(Ex::List(vec![var("pa"), var("pr"), var("pd")])),
                            );
                            let n_args = g.rng.below(5);
                            let args: Vec<Ex> = (0..n_args).map(|k| int(k as i64 + 1)).collect();
                            g.push("splat-then-default", Ex::Call(Box::new(lam), args), vec![])
                        }
                    }
                    _ => {
                        // declaration with annotation spanning both names: `a, b : T = ...`
                        let a = g.fresh("t");
                        let b = g.fresh("t");
                        let v3 = value_of(&mut g, &ty);
                        let r = g.push(
                            "declare-pair",
                            Ex::Assign(
                                false,
                                Box::new(Lv::Annot(
                                    Box::new(Lv::Seq(vec![lv(&a), lv(&b)], false)),
                                    Some(Box::new(var(&ty))),
                                )),
                                Box::new(Ex::CommaSeq(vec![v1, v3])),
                            ),
                            vec![],
                        );
                        if let Ok(Ok(_)) = r {
                            tvars.push((a, ty.clone()));
                            tvars.push((b, ty.clone()));
                        }
                        r
                    }
                }
            }
            7 => {
                // the invariant, asked in the session: every annotated variable is of its type
                let checks: Vec<Ex> = tvars.iter().map(|(n, t)| bin(var(n), "is", var(t))).collect();
                g.push("is-invariant", Ex::List(checks), vec![])
            }
            8 => {
                // switch: the first matching arm runs
                let scrut = match g.rng.below(8) {
                    0..=2 => var(&name),
                    3 => call("Qt", vec![int(g.rng.range(0, 5)), int(2)]),
                    4 => {
                        let t = *g.rng.pick(&["vector", "bytes", "str", "rational", "Pt"]);
                        value_of(&mut g, t)
                    }
                    5 => {
                        let n = g.rng.below(5);
                        Ex::List((0..n).map(|_| int(g.rng.range(0, 9))).collect())
                    }
                    _ => value_of(&mut g, "anything"),
                };
                let mut arms: Vec<(Lv, Ex)> = Vec::new();
                let n = 2 + g.rng.below(4);
                for k in 0..n {
                    let pat = match g.rng.below(24) {
                        // k + n: the literal on the left
                        22 => Lv::Destructure(Box::new(var("+")), vec![Lv::Lit(Box::new(int(g.rng.range(0, 3)))), lv("pa")]),
                        23 => Lv::Destructure(Box::new(var("+")), vec![Lv::Lit(Box::new(var(&name))), lv("pa")]),
                        // -x: the negation; literally e: an expression's value as a literal
                        17 => Lv::Destructure(Box::new(var("-")), vec![lv("pa")]),
                        18 => Lv::Lit(Box::new(var(&name))),
                        19 => Lv::Seq(
                            vec![Lv::Lit(Box::new(bin(int(g.rng.range(0, 3)), "+", int(1)))), Lv::Splat(Box::new(lv("pr")))],
                            true,
                        ),
                        // k * x and x * k: the exact quotient, also by zero
                        20 => Lv::Destructure(Box::new(var("*")), vec![lv("pa"), Lv::Lit(Box::new(int(g.rng.range(0, 4))))]),
                        21 => Lv::Destructure(Box::new(var("*")), vec![Lv::Lit(Box::new(int(g.rng.range(0, 4)))), lv("pa")]),
                        // a / b: numerator and denominator
                        12 => Lv::Destructure(Box::new(var("/")), vec![lv("pa"), lv("pb")]),
                        13 => Lv::Destructure(Box::new(var("/")), vec![lv("pa"), Lv::Lit(Box::new(int(1)))]),
                        // prepend / append patterns, also chained without parentheses
                        14 => Lv::Destructure(Box::new(var(".+")), vec![lv("pa"), lv("pb")]),
                        15 => Lv::Destructure(
                            Box::new(var(".+")),
                            vec![lv("pa"), Lv::Destructure(Box::new(var(".+")), vec![lv("pb"), lv("pr")])],
                        ),
                        16 => Lv::Destructure(
                            Box::new(var("+.")),
                            vec![Lv::Destructure(Box::new(var("+.")), vec![lv("pr"), lv("pb")]), lv("pa")],
                        ),
                        // chained comparison patterns, same and mixed operators, at the boundaries
                        9 => {
                            let lo = g.rng.range(0, 3);
                            let ops = *g.rng.pick(&[("<", "<"), ("<=", "<"), ("<", "<="), ("<=", "<="), (">", ">="), (">=", ">")]);
                            let (a, b) = if ops.0.starts_with('<') { (lo, lo + g.rng.range(1, 4)) } else { (lo + g.rng.range(1, 4), lo) };
                            Lv::Cmp(
                                vec![Lv::Lit(Box::new(int(a))), lv("pa"), Lv::Lit(Box::new(int(b)))],
                                vec![ops.0.to_string(), ops.1.to_string()],
                            )
                        }
                        10 => Lv::Cmp(
                            vec![lv("pa"), Lv::Lit(Box::new(int(g.rng.range(0, 4))))],
                            vec![g.rng.pick(&["<", "<=", ">", ">=", "==", "!="]).to_string()],
                        ),
                        11 => Lv::Cmp(
                            vec![lv("pa"), lv("pb")],
                            vec![g.rng.pick(&["<", "<=", ">"]).to_string()],
                        ),
                        0 => Lv::Lit(Box::new(int(g.rng.range(0, 3)))),
                        1 => Lv::Annot(Box::new(Lv::Underscore), Some(Box::new(var(*g.rng.pick(&["int", "str", "list", "number", "small"]))))),
                        2 => Lv::Seq(vec![lv("pa"), lv("pb")], true),
                        3 => Lv::Seq(vec![lv("pa"), Lv::Splat(Box::new(lv("pr")))], true),
                        4 => Lv::Destructure(Box::new(var("Pt")), vec![lv("pa"), lv("pb")]),
                        5 => Lv::Or(
                            Box::new(Lv::Lit(Box::new(int(1)))),
                            Box::new(Lv::Lit(Box::new(Ex::Str("a".into())))),
                        ),
                        6 => Lv::And(
                            Box::new(lv("pa")),
                            Box::new(Lv::Annot(Box::new(Lv::Underscore), Some(Box::new(var("int"))))),
                        ),
                        7 => Lv::Destructure(Box::new(var("append")), vec![lv("pa"), lv("pb")]),
                        _ => Lv::Destructure(Box::new(var("+")), vec![lv("pa"), Lv::Lit(Box::new(int(1)))]),
                    };
                    // the arm's value shows which arm ran and, for patterns binding pa (pb, pr),
                    // what they were bound to
                    let binds = |l: &Lv, n: &str| crate::freevars::lv_names(l).contains(&n.to_string());
                    let mut shown = vec![int(k as i64)];
                    for n in ["pa", "pb", "pr"] {
                        if binds(&pat, n) {
                            shown.push(var(n));
                        }
                    }
                    arms.push((pat, Ex::List(shown)));
                }
                if !ill {
                    arms.push((Lv::Underscore, int(99)));
                }
                nontrivial = true;
                g.push("switch", Ex::Switch(Box::new(scrut), arms), vec![])
            }
            9 if g.rng.chance(1, 3) => {
                // several trailing defaults: each missing argument takes its own default
                let lam = Ex::Lambda(
                    vec![
                        lv("pa"),
                        Lv::Default(Box::new(lv("pb")), Box::new(int(11))),
                        Lv::Default(Box::new(lv("pc")), Box::new(int(12))),
                        Lv::Default(Box::new(lv("pd")), Box::new(int(13))),
                    ],
                    Box::new(Ex::List(vec![var("pa"), var("pb"), var("pc"), var("pd")])),
                );
                let n_args = if ill { *g.rng.pick(&[0usize, 5]) } else { 1 + g.rng.below(4) };
                let args: Vec<Ex> = (0..n_args).map(|k| int(k as i64 + 1)).collect();
                g.push("several-defaults", Ex::Call(Box::new(lam), args), vec![])
            }
            9 => {
                // patterns in lambda parameters and for clauses
                let v = value_of(&mut g, &ty);
                let lam = Ex::Lambda(
                    vec![Lv::Annot(Box::new(lv("p")), Some(Box::new(var(&ty)))), Lv::Default(Box::new(lv("d")), Box::new(int(5)))],
                    Box::new(Ex::List(vec![var("p"), var("d")])),
                );
                let arg = if ill { wrong_value_of(&mut g, &ty) } else { v };
                g.push("typed-parameter", Ex::Call(Box::new(lam), vec![arg]), vec![])
            }
            10 => {
                // a closure setter: assignment from another scope still checks the annotation
                let setter = g.fresh("set");
                let r = g.push(
                    "declare-setter",
                    declare(
                        &setter,
                        Ex::Lambda(vec![lv("nv")], Box::new(Ex::Assign(false, Box::new(lv(&name)), Box::new(var("nv"))))),
                    ),
                    vec![],
                );
                if r.is_err() {
                    break;
                }
                let v = if ill { wrong_value_of(&mut g, &ty) } else { value_of(&mut g, &ty) };
                nontrivial = true;
                g.push("call-setter", call(&setter, vec![v]), vec![])
            }
            _ => {
                // for clause with a destructuring pattern, and try/catch binding the thrown value
                if g.rng.chance(1, 2) {
                    let e = Ex::For(
                        vec![Clause::Each(
                            Lv::Seq(vec![lv("fa"), lv("fb")], false),
                            Ex::List(vec![
                                Ex::List(vec![int(1), int(2)]),
                                if ill { Ex::List(vec![int(3)]) } else { Ex::List(vec![int(3), int(4)]) },
                            ]),
                        )],
                        Box::new(ForBody::Yield(bin(var("fa"), "+", var("fb")), None)),
                    );
                    g.push("for-pattern", e, vec![])
                } else if g.rng.chance(1, 2) {
                    // a catch pattern that does not match passes the thrown value on, unchanged
                    let thrown = int(g.rng.range(0, 4));
                    let lit = int(g.rng.range(0, 4));
                    let inner = Ex::Try(
                        Box::new(Ex::Throw(Box::new(thrown))),
                        Box::new(Lv::Lit(Box::new(lit))),
                        Box::new(Ex::Str("inner".into())),
                    );
                    let e = Ex::Try(Box::new(inner), Box::new(lv("outer")), Box::new(Ex::List(vec![Ex::Str("outer".into()), var("outer")])));
                    g.push("catch-mismatch-rethrows", e, vec![])
                } else {
                    let e = Ex::Try(
                        Box::new(Ex::Throw(Box::new(Ex::List(vec![int(1), var(&name)])))),
                        Box::new(Lv::Seq(vec![lv("ca"), lv("cb")], false)),
                        Box::new(Ex::List(vec![var("cb"), var("ca")])),
                    );
                    g.push("catch-pattern", e, vec![])
                }
            }
        };
        if r.is_err() {
            break;
        }
    }
    // close with the invariant
    let checks: Vec<Ex> = tvars.iter().map(|(n, t)| bin(var(n), "is", var(t))).collect();
    let _ = g.push("is-invariant", Ex::List(checks), vec![]);
    finish(g, nontrivial)
}

fn finish(mut g: Gen, nontrivial: bool) -> TypedOut {
    TypedOut {
        script: g.take_script(),
        kinds: std::mem::take(&mut g.kinds),
        nontrivial,
    }
}
