// Profile `io` (C14, input seam S3): sessions that read a scripted input stream through every
// reading builtin while the reader delivers it in one-byte pieces, interrupts reads (EINTR), fails
// once at a seed-chosen byte offset, or contains bytes that are not UTF-8; the callbacks handed to
// `interact`/`interact_lines` print, mutate session variables, throw or return lazy streams whose
// elements print when forced (re-entrancy on the output seam while the builtin is writing).
// Oracle: exact refinement -- values, output, session variables and the number of input bytes
// consumed, after every statement.

use crate::gen_common::*;
use crate::ir::*;
use crate::rng::Rng;
use crate::run::{Fault, RunCfg, Script};

pub struct IoOut {
    pub script: Script,
    pub kinds: Vec<String>,
    pub nontrivial: bool,
}

const LINES: &[&str] = &["", "abc", "12", "λx", "a b", "-3", "x,y", "é"];

fn lam1(p: &str, body: Ex) -> Ex {
    Ex::Lambda(vec![lv(p)], Box::new(body))
}

fn printing_lazy(src: Ex) -> Ex {
    // src lazy_map (\l -> (print(l); l))
    bin(
        src,
        "lazy_map",
        lam1("l", Ex::Seq(vec![call("print", vec![var("l")]), var("l")], false)),
    )
}

pub fn generate(seed: u64, fault_free: bool) -> IoOut {
    let mut pre = Rng::new(seed ^ 0x10_10);
    // the input script
    let n_lines = pre.below(7);
    let mut data: Vec<u8> = Vec::new();
    for i in 0..n_lines {
        data.extend_from_slice(pre.pick(LINES).as_bytes());
        if i + 1 < n_lines || pre.chance(2, 3) {
            data.push(b'\n');
        }
    }
    let mut bad_utf8 = false;
    if !fault_free && !data.is_empty() && pre.chance(1, 4) {
        let at = pre.below(data.len() + 1);
        data.insert(at, *pre.pick(&[0xffu8, 0xc3, 0x80]));
        bad_utf8 = true;
    }
    let in_err_at = if !fault_free && pre.chance(1, 2) { Some(pre.below(data.len() + 1)) } else { None };
    let cfg = RunCfg {
        hash_seed: pre.next(),
        writer_seed: pre.next(),
        short_writes: !fault_free && pre.chance(1, 3),
        eintr_every: if !fault_free && pre.chance(1, 4) { 2 + pre.below(3) as u32 } else { 0 },
        input: data.clone(),
        in_one_byte: pre.chance(1, 3),
        in_eintr_every: if !fault_free && pre.chance(1, 2) { 2 + pre.below(3) as u32 } else { 0 },
        in_err_at,
        ..RunCfg::default()
    };
    let mut g = Gen::new(seed, cfg);
    let mut rng = Rng::new(seed ^ 0x10_11);
    let mut nontrivial = false;

    for (name, e) in [("acc", Ex::List(vec![])), ("s", Ex::Str("".into())), ("n", int(0)), ("b", call("B", vec![]))] {
        if g.push("session-var", declare(name, e), vec![]).is_err() {
            return finish(g, nontrivial);
        }
    }

    let n_ops = 3 + rng.below(10);
    let mut out_limited = false;
    for _ in 0..n_ops {
        let choice = rng.weighted(&[8, 3, 3, 2, 4, 5, 2, 2]);
        let mut faults = Vec::new();
        let (kind, e): (&str, Ex) = match choice {
            0 => (
                "input-line",
                match rng.below(3) {
                    0 => Ex::OpAssign(false, Box::new(lv("acc")), "append".into(), Box::new(call("input", vec![]))),
                    1 => Ex::Assign(false, Box::new(lv("s")), Box::new(call("input", vec![]))),
                    _ => call("input", vec![]),
                },
            ),
            1 => ("input-prompt", call("input", vec![Ex::Str((*rng.pick(&["> ", "", "name? "])).into())])),
            2 => ("read-all", Ex::Assign(false, Box::new(lv("s")), Box::new(call("read", vec![])))),
            3 => ("read-bytes", Ex::Assign(false, Box::new(lv("b")), Box::new(call("read_bytes", vec![])))),
            4 => {
                let f = match rng.below(7) {
                    0 => lam1("t", bin(var("t"), "$", Ex::Str("!".into()))),
                    1 => lam1("t", call("len", vec![var("t")])),
                    2 => var("reverse"),
                    3 => lam1("t", Ex::Seq(vec![Ex::OpAssign(false, Box::new(lv("n")), "+".into(), Box::new(int(1))), var("t")], false)),
                    4 => lam1("t", Ex::Throw(Box::new(Ex::Str("cb".into())))),
                    5 => lam1("t", Ex::Seq(vec![call("print", vec![Ex::Str("in callback".into())]), var("t")], false)),
                    _ => int(3),
                };
                let mut args = vec![f];
                if rng.chance(1, 4) {
                    args.push(lam1("u", bin(var("u"), "$", var("u"))));
                }
                ("interact", call("interact", args))
            }
            5 => {
                let f = match rng.below(10) {
                    0 => lam1("ls", var("ls")),
                    1 => var("reverse"),
                    2 => lam1("ls", bin(var("ls"), "map", var("len"))),
                    // a lazy result whose elements print while `interact_lines` is writing
                    // (lazy_map wants a stream: `stream(ls)`; on the bare list HEAD refuses)
                    3 => lam1("ls", printing_lazy(call("stream", vec![var("ls")]))),
                    4 => lam1("ls", printing_lazy(var("ls"))),
                    5 => lam1("ls", printing_lazy(bin(int(1), "to", int(2)))),
                    // ... or mutate a session variable
                    6 => lam1(
                        "ls",
                        bin(
                            bin(int(1), "to", int(3)),
                            "lazy_map",
                            lam1("i", Ex::Seq(vec![Ex::OpAssign(false, Box::new(lv("n")), "+".into(), Box::new(var("i"))), var("n")], false)),
                        ),
                    ),
                    7 => lam1("ls", call("len", vec![var("ls")])),
                    8 => lam1("ls", bin(var("ls"), "filter", lam1("l", bin(call("len", vec![var("l")]), ">", int(1))))),
                    _ => lam1("ls", Ex::Str("xy".into())),
                };
                ("interact-lines", call("interact_lines", vec![f]))
            }
            6 => ("print-state", call("print", vec![var("n"), call("len", vec![var("acc")])])),
            _ => ("print-last", call("print", vec![var("s")])),
        };
        if !fault_free && rng.chance(1, 6) {
            faults.push(Fault::OutBudget(rng.below(12)));
            out_limited = true;
        } else if out_limited {
            faults.push(Fault::OutUnlimited);
            out_limited = false;
        }
        let e = if rng.chance(1, 3) {
            Ex::Try(Box::new(e), Box::new(lv("err")), Box::new(Ex::Str("caught".into())))
        } else {
            e
        };
        if choice == 5 || bad_utf8 || in_err_at.is_some() {
            nontrivial = true;
        }
        if g.push(kind, e, faults).is_err() {
            break;
        }
    }
    finish(g, nontrivial)
}

fn finish(mut g: Gen, nontrivial: bool) -> IoOut {
    IoOut {
        kinds: std::mem::take(&mut g.kinds),
        script: g.take_script(),
        nontrivial,
    }
}
