// Profile `flow` (C05): sessions whose statements are programs over the control-flow vocabulary:
// sequencing, if/else, while, multi-clause for (element and pair iteration, mid-loop declarations,
// guards, yield, into), break/continue with repeat counts and values, return, try/catch/throw,
// and/or/coalesce, lambdas with defaults and splats, switch, eval, print; closures that escape
// their scope and are invoked later in a seed-chosen order; shadowing; output faults.

use crate::gen_common::*;
use crate::ir::*;
use crate::rng::Rng;
use crate::run::{Fault, RunCfg, Script};

pub struct FlowOut {
    pub script: Script,
    pub kinds: Vec<String>,
    pub nontrivial: bool,
}

#[derive(Clone)]
pub struct Ctx {
    /// readable but never assigned by generated code (loop counters)
    pub consts: Vec<String>,
    pub ints: Vec<String>,
    pub lists: Vec<String>,
    /// lists that are only read (outer lists seen from code that must not write outside)
    pub ro_lists: Vec<String>,
    /// two-argument functions usable as infix operators in chains
    pub ops: Vec<String>,
    /// outer variables holding a type (used in annotations of local declarations and patterns)
    pub types: Vec<String>,
    /// (name, min args, max args; usize::MAX = variadic)
    pub funcs: Vec<(String, usize, usize)>,
    pub loop_depth: usize,
    pub in_lambda: bool,
}

pub struct FlowGen {
    pub rng: Rng,
    pub next: usize,
    pub budget: i64,
    pub has_print: bool,
    pub features: Vec<&'static str>,
    pub fault: bool,
    /// for bodies that will be frozen: no eval (its text is resolved at call time by design) and
    /// no statements that write variables of the session
    pub frozen_body: bool,
}

impl FlowGen {
    pub fn fresh(&mut self, p: &str) -> String {
        self.next += 1;
        format!("{}{}", p, self.next)
    }
    fn spend(&mut self, n: i64) -> bool {
        self.budget -= n;
        self.budget > 0
    }
    pub fn feat(&mut self, f: &'static str) {
        self.features.push(f);
    }

    fn int_lit(&mut self) -> Ex {
        int(self.rng.range(0, 9))
    }

    pub fn int_expr(&mut self, ctx: &Ctx, d: usize) -> Ex {
        if d == 0 || !self.spend(1) {
            return if !ctx.consts.is_empty() && self.rng.chance(1, 4) {
                var(&self.rng.pick(&ctx.consts).clone())
            } else if !ctx.ints.is_empty() && self.rng.chance(2, 3) {
                var(&self.rng.pick(&ctx.ints).clone())
            } else {
                self.int_lit()
            };
        }
        match self.rng.weighted(&[10, 12, 12, 6, 5, 5, 4, 4, 4, 4, 3, 3, 2, 2]) {
            0 if self.rng.chance(1, 5) => {
                // unary minus on a literal: `-` is looked up like any other function
                self.feat("unary-minus");
                Ex::Call(Box::new(var("-")), vec![int(self.rng.range(0, 9))])
            }
            0 => self.int_lit(),
            1 => {
                if ctx.ints.is_empty() {
                    self.int_lit()
                } else {
                    var(&self.rng.pick(&ctx.ints).clone())
                }
            }
            2 => {
                let op = *self.rng.pick(&["+", "-", "*", "+", "-"]);
                let a = self.int_expr(ctx, d - 1);
                // products only with a small literal: `x *= x` in a loop squares the digit count
                // per iteration, which is a cost the step budget does not see
                let b = if op == "*" { self.int_lit() } else { self.int_expr(ctx, d - 1) };
                bin(a, op, b)
            }
            3 => {
                let op = *self.rng.pick(&["<", "<=", "==", "!=", ">", ">="]);
                let a = self.int_expr(ctx, d - 1);
                let b = self.int_expr(ctx, d - 1);
                bin(a, op, b)
            }
            4 => {
                // may divide by zero: raises
                let op = *self.rng.pick(&["//", "%"]);
                let a = self.int_expr(ctx, d - 1);
                let b = self.int_expr(ctx, d - 1);
                bin(a, op, b)
            }
            5 => {
                if self.rng.chance(1, 3) {
                    return self.dict_yield_digest(ctx, d);
                }
                let l = self.list_expr(ctx, d - 1);
                call("len", vec![l])
            }
            6 => {
                // index, possibly out of range
                let l = self.list_expr(ctx, d - 1);
                let i = if self.rng.chance(3, 4) { int(self.rng.range(-2, 2)) } else { self.int_expr(ctx, d - 1) };
                Ex::Index(Box::new(l), Box::new(i))
            }
            7 => {
                let c = self.int_expr(ctx, d - 1);
                let a = self.int_expr(ctx, d - 1);
                if self.rng.chance(1, 5) {
                    // no else: null when false
                    Ex::Coalesce(Box::new(Ex::If(Box::new(c), Box::new(a), None)), Box::new(self.int_lit()))
                } else {
                    let b = self.int_expr(ctx, d - 1);
                    Ex::If(Box::new(c), Box::new(a), Some(Box::new(b)))
                }
            }
            8 => {
                self.feat("short-circuit");
                let a = self.int_expr(ctx, d - 1);
                let b = self.int_expr(ctx, d - 1);
                match self.rng.below(3) {
                    0 => Ex::And(Box::new(a), Box::new(b)),
                    1 => Ex::Or(Box::new(a), Box::new(b)),
                    _ => Ex::Coalesce(Box::new(if self.rng.chance(1, 2) { Ex::Null } else { a }), Box::new(b)),
                }
            }
            9 => {
                if ctx.funcs.is_empty() {
                    return self.int_lit();
                }
                self.call_expr(ctx, d)
            }
            10 => {
                let l = self.list_expr(ctx, d - 1);
                call("sum", vec![l])
            }
            11 => {
                self.feat("try-expr");
                let body = self.int_expr(ctx, d - 1);
                let h = self.int_expr(ctx, d - 1);
                Ex::Try(Box::new(body), Box::new(lv("err")), Box::new(h))
            }
            12 => {
                self.feat("switch");
                self.switch_expr(ctx, d)
            }
            _ => {
                if self.frozen_body || self.rng.chance(1, 2) {
                    // an unparenthesised chain: grouping by the operators' run-time precedence
                    self.feat("chain");
                    let n = 2 + self.rng.below(2);
                    let first = self.int_expr(ctx, 0);
                    let mut rest = Vec::new();
                    // comparison chains: neighbouring comparisons merge into one test
                    // (`a < b <= c`), also next to arithmetic of higher precedence
                    let cmp_chain = self.rng.chance(1, 4);
                    if cmp_chain {
                        self.feat("comparison-chain");
                    }
                    for _ in 0..n {
                        let op = if cmp_chain && self.rng.chance(3, 4) {
                            self.rng.pick(&["<", "<=", ">", ">=", "==", "!=", "<", "=="]).to_string()
                        } else if !ctx.ops.is_empty() && self.rng.chance(1, 4) {
                            self.rng.pick(&ctx.ops).clone()
                        } else {
                            self.rng.pick(&["+", "-", "*", "+", "*"]).to_string()
                        };
                        // keep products small: literals next to `*`
                        let operand = if op == "*" { self.int_lit() } else { self.int_expr(ctx, 0) };
                        rest.push((op, operand));
                    }
                    return Ex::Chain(Box::new(first), rest);
                }
                self.feat("eval");
                // evaluated at the call site: sees the same variables
                let inner = self.int_expr(ctx, d.min(2) - 1);
                Ex::EvalOf(Box::new(inner))
            }
        }
    }

    fn call_expr(&mut self, ctx: &Ctx, d: usize) -> Ex {
        let (name, lo, hi) = self.rng.pick(&ctx.funcs).clone();
        let n = if self.fault && self.rng.chance(1, 10) {
            // wrong arity: raises
            lo.saturating_sub(1)
        } else if hi == usize::MAX {
            lo + self.rng.below(3)
        } else {
            lo + self.rng.below(hi - lo + 1)
        };
        let mut args: Vec<Ex> = (0..n).map(|_| self.int_expr(ctx, d.saturating_sub(1).min(1))).collect();
        if hi == usize::MAX && !ctx.lists.is_empty() && self.rng.chance(1, 4) {
            self.feat("call-splat");
            args.push(Ex::Splat(Box::new(var(&self.rng.pick(&ctx.lists).clone()))));
        }
        Ex::Call(Box::new(var(&name)), args)
    }

    fn switch_expr(&mut self, ctx: &Ctx, d: usize) -> Ex {
        let scrut = self.int_expr(ctx, d - 1);
        let mut arms = Vec::new();
        let n = 1 + self.rng.below(3);
        for _ in 0..n {
            let pat = match self.rng.below(4) {
                0 | 1 => Lv::Lit(Box::new(int(self.rng.range(0, 4)))),
                2 => {
                    // binds the scrutinee in the arm's fresh scope
                    let name = self.fresh("w");
                    let mut c2 = ctx.clone();
                    c2.ints.push(name.clone());
                    let body = self.int_expr(&c2, d - 1);
                    if !ctx.types.is_empty() && self.rng.chance(1, 2) {
                        self.feat("annotated-pattern");
                        let t = self.rng.pick(&ctx.types).clone();
                        arms.push((Lv::Annot(Box::new(lv(&name)), Some(Box::new(var(&t)))), body));
                    } else {
                        arms.push((lv(&name), body));
                    }
                    continue;
                }
                _ => Lv::Underscore,
            };
            let body = self.int_expr(ctx, d - 1);
            arms.push((pat, body));
        }
        if !self.fault || self.rng.chance(3, 4) {
            let body = self.int_expr(ctx, d - 1);
            arms.push((Lv::Underscore, body));
        }
        Ex::Switch(Box::new(scrut), arms)
    }

    fn list_expr(&mut self, ctx: &Ctx, d: usize) -> Ex {
        if d == 0 || !self.spend(1) {
            return if !ctx.ro_lists.is_empty() && self.rng.chance(1, 3) {
                var(&self.rng.pick(&ctx.ro_lists).clone())
            } else if !ctx.lists.is_empty() && self.rng.chance(2, 3) {
                var(&self.rng.pick(&ctx.lists).clone())
            } else {
                Ex::List((0..self.rng.below(4)).map(|_| self.int_lit()).collect())
            };
        }
        match self.rng.weighted(&[6, 8, 6, 3, 3]) {
            0 => {
                let n = self.rng.below(4);
                Ex::List((0..n).map(|_| self.int_expr(ctx, d - 1)).collect())
            }
            1 => {
                if ctx.lists.is_empty() {
                    Ex::List(vec![self.int_lit()])
                } else {
                    var(&self.rng.pick(&ctx.lists).clone())
                }
            }
            2 => {
                self.feat("yield");
                self.for_yield(ctx, d)
            }
            3 => {
                let a = self.list_expr(ctx, d - 1);
                let b = self.list_expr(ctx, d - 1);
                bin(a, "++", b)
            }
            _ => {
                let l = self.list_expr(ctx, d - 1);
                let a = if self.rng.chance(1, 2) { Some(Box::new(int(self.rng.range(-3, 3)))) } else { None };
                let b = if self.rng.chance(1, 2) { Some(Box::new(int(self.rng.range(-3, 3)))) } else { None };
                Ex::Slice(Box::new(l), a, b)
            }
        }
    }

    /// clauses of a for loop; returns the clauses and the context inside the innermost clause
    fn clauses(&mut self, ctx: &Ctx, d: usize) -> (Vec<Clause>, Ctx) {
        let mut c = ctx.clone();
        let mut out = Vec::new();
        let n = 1 + self.rng.below(3);
        for k in 0..n {
            let kind = if k == 0 { self.rng.below(2) } else { self.rng.below(4) };
            match kind {
                0 if !c.ro_lists.is_empty() && self.rng.chance(1, 8) => {
                    // `for (l <- l)`: the iterable is evaluated before the clause's variable exists,
                    // so it is the outer list; inside the loop the name is the element
                    self.feat("for-variable-shadows-its-iterable");
                    let name = self.rng.pick(&c.ro_lists).clone();
                    out.push(Clause::Each(lv(&name), var(&name)));
                    c.ro_lists.retain(|x| x != &name);
                    c.lists.retain(|x| x != &name);
                    c.ints.push(name);
                }
                0 => {
                    let name = self.fresh("i");
                    let it = if self.rng.chance(1, 2) {
                        let hi = self.rng.range(0, 4);
                        Ex::Call(Box::new(var("to")), vec![int(self.rng.range(0, 2)), int(hi)])
                    } else {
                        self.list_expr(&c, d.saturating_sub(1))
                    };
                    out.push(Clause::Each(lv(&name), it));
                    c.ints.push(name);
                }
                1 => {
                    self.feat("pair-iteration");
                    let i = self.fresh("i");
                    let x = self.fresh("i");
                    let it = self.list_expr(&c, d.saturating_sub(1));
                    out.push(Clause::Pairs(Lv::Seq(vec![lv(&i), lv(&x)], false), it));
                    c.ints.push(i);
                    c.ints.push(x);
                }
                2 => {
                    self.feat("for-guard");
                    let g = self.int_expr(&c, d.saturating_sub(1).min(2));
                    out.push(Clause::Guard(g));
                }
                _ => {
                    self.feat("for-decl");
                    let name = self.fresh("i");
                    let e = self.int_expr(&c, d.saturating_sub(1).min(2));
                    out.push(Clause::Decl(lv(&name), e));
                    c.ints.push(name);
                }
            }
        }
        (out, c)
    }

    /// `for (...) yield k: v` builds a dictionary; observed through an order-insensitive digest
    /// (number of keys, or the sum of the values), with `break`/`break value`/`continue` inside
    fn dict_yield_digest(&mut self, ctx: &Ctx, d: usize) -> Ex {
        self.feat("yield-item");
        let (cl, mut inner) = self.clauses(ctx, d);
        inner.loop_depth = ctx.loop_depth + 1;
        let k = self.int_expr(&inner, 1);
        let v = self.int_expr(&inner, 1);
        let (k, v) = match self.rng.below(5) {
            0 => {
                // leave the loop early: the loop evaluates to the dictionary built so far
                self.feat("yield-item-break");
                let c = self.int_expr(&inner, 1);
                (Ex::If(Box::new(c), Box::new(Ex::Break(0, None)), Some(Box::new(k))), v)
            }
            1 => {
                // ... or to the break value
                self.feat("yield-item-break-value");
                let c = self.int_expr(&inner, 1);
                let bv = Ex::Dict(None, vec![(int(7), Some(int(self.rng.range(0, 9))))]);
                (k, Ex::If(Box::new(c), Box::new(Ex::Break(0, Some(Box::new(bv)))), Some(Box::new(v))))
            }
            2 => {
                self.feat("yield-item-continue");
                let c = self.int_expr(&inner, 1);
                (Ex::If(Box::new(c), Box::new(Ex::Continue(0)), Some(Box::new(k))), v)
            }
            _ => (k, v),
        };
        // `into f` folds the values of each key separately
        let into = if self.rng.chance(1, 4) {
            self.feat("yield-item-into");
            Some(var(*self.rng.pick(&["len", "sum", "first", "last"])))
        } else {
            None
        };
        let loop_ = Ex::For(cl, Box::new(ForBody::YieldItem(k, v, into)));
        if self.rng.chance(1, 2) {
            call("len", vec![loop_])
        } else {
            call("sum", vec![call("values", vec![loop_])])
        }
    }

    fn for_yield(&mut self, ctx: &Ctx, d: usize) -> Ex {
        let (cl, mut inner) = self.clauses(ctx, d);
        inner.loop_depth = ctx.loop_depth + 1;
        let body = if self.rng.chance(1, 6) && inner.loop_depth > 0 {
            // yield with break: finishes with what it has / evaluates to the break value
            self.feat("yield-break");
            let c = self.int_expr(&inner, 1);
            let v = self.int_expr(&inner, 1);
            let brk = if self.rng.chance(1, 2) {
                Ex::Break(0, None)
            } else {
                Ex::Break(0, Some(Box::new(Ex::List(vec![v.clone()]))))
            };
            Ex::If(Box::new(c), Box::new(brk), Some(Box::new(v)))
        } else {
            self.int_expr(&inner, d.saturating_sub(1).min(2))
        };
        // `into`: only forms that keep the result a list here (more often next to a `break value`:
        // the function is applied to whatever the loop evaluates to)
        let has_break = matches!(&body, Ex::If(_, b, _) if matches!(&**b, Ex::Break(..)));
        let into = if self.rng.chance(1, if has_break { 2 } else { 6 }) {
            self.feat("into");
            if self.rng.chance(1, 2) {
                // a function that visibly changes whatever it is applied to
                Some(Ex::Lambda(
                    vec![lv("res")],
                    Box::new(bin(var("res"), "++", Ex::List(vec![call("len", vec![var("res")])]))),
                ))
            } else {
                Some(var(*self.rng.pick(&["sort", "reverse", "id"])))
            }
        } else {
            None
        };
        Ex::For(cl, Box::new(ForBody::Yield(body, into)))
    }

    pub fn lambda(&mut self, ctx: &Ctx, d: usize) -> (Ex, usize, usize) {
        let mut c = ctx.clone();
        c.loop_depth = 0;
        c.in_lambda = true;
        let mut params = Vec::new();
        let n = self.rng.below(3);
        let mut lo = 0;
        let mut hi = 0;
        let mut shadowed: Option<String> = None;
        for k in 0..n {
            // sometimes a parameter shadows an outer variable of the same name
            let outer_names: Vec<String> = ctx.consts.iter().chain(ctx.ints.iter()).cloned().collect();
            let p = if k == 0 && !outer_names.is_empty() && self.rng.chance(1, 4) {
                self.feat("param-shadows-outer");
                let nm = self.rng.pick(&outer_names).clone();
                shadowed = Some(nm.clone());
                nm
            } else {
                self.fresh("a")
            };
            params.push(lv(&p));
            if !c.ints.contains(&p) {
                c.ints.push(p.clone());
            }
            c.consts.retain(|x| x != &p);
            lo += 1;
            hi += 1;
        }
        let shape = if shadowed.is_some() && self.rng.chance(1, 2) { 0 } else { self.rng.below(12) };
        // 0..2 default, 3..5 splat, 6 default then splat, 7 splat then default, else neither
        let mut default_param = |me: &mut Self, c: &mut Ctx, params: &mut Vec<Lv>| {
            me.feat("lambda-default");
            let p = me.fresh("a");
            // defaults are evaluated before any parameter is bound: they only see outer names, also
            // when a parameter has the same name
            let dflt = match &shadowed {
                Some(nm) if me.rng.chance(2, 3) => bin(var(nm), "+", int(100)),
                _ => me.int_expr(ctx, 1),
            };
            params.push(Lv::Default(Box::new(lv(&p)), Box::new(dflt)));
            c.ints.push(p);
        };
        let splat_param = |me: &mut Self, c: &mut Ctx, params: &mut Vec<Lv>| {
            me.feat("lambda-splat");
            let p = me.fresh("r");
            params.push(Lv::Splat(Box::new(lv(&p))));
            c.lists.push(p);
        };
        match shape {
            0..=2 => {
                default_param(self, &mut c, &mut params);
                hi += 1;
            }
            3..=5 => {
                splat_param(self, &mut c, &mut params);
                hi = usize::MAX;
            }
            6 => {
                self.feat("lambda-default-then-splat");
                default_param(self, &mut c, &mut params);
                splat_param(self, &mut c, &mut params);
                hi = usize::MAX;
            }
            7 => {
                self.feat("lambda-splat-then-default");
                splat_param(self, &mut c, &mut params);
                default_param(self, &mut c, &mut params);
                hi = usize::MAX;
            }
            _ => {}
        }
        let body = if self.rng.chance(1, 2) {
            self.int_expr(&c, d.saturating_sub(1))
        } else {
            let mut stmts = self.seq_stmts(&mut c, d.saturating_sub(1), 1, 3);
            if self.fault && self.rng.chance(1, 12) {
                // the parameters live in the scope the body runs in: declaring one again is refused
                let names: Vec<String> = params
                    .iter()
                    .filter_map(|p| match p {
                        Lv::Ident(n, _) => Some(n.clone()),
                        Lv::Default(inner, _) | Lv::Splat(inner) => match &**inner {
                            Lv::Ident(n, _) => Some(n.clone()),
                            _ => None,
                        },
                        _ => None,
                    })
                    .collect();
                if !names.is_empty() {
                    self.feat("redeclare-parameter");
                    let n = self.rng.pick(&names).clone();
                    let at = self.rng.below(stmts.len() + 1);
                    stmts.insert(at, declare(&n, int(5)));
                }
            }
            let last = if self.rng.chance(1, 3) {
                self.feat("return");
                let r = Ex::Return(Some(Box::new(self.int_expr(&c, 1))));
                if !self.frozen_body && self.rng.chance(1, 4) {
                    // a `return` inside evaluated text leaves the enclosing lambda, not just `eval`
                    self.feat("eval-return");
                    Ex::Seq(vec![Ex::EvalOf(Box::new(r)), int(77)], false)
                } else {
                    r
                }
            } else {
                self.int_expr(&c, 1)
            };
            stmts.push(last);
            Ex::Seq(stmts, false)
        };
        (Ex::Lambda(params, Box::new(body)), lo, hi)
    }

    /// `lo` statements plus a seed-chosen 0..extra more
    fn seq_stmts(&mut self, ctx: &mut Ctx, d: usize, lo: usize, extra: usize) -> Vec<Ex> {
        let n = lo + if extra > 0 { self.rng.below(extra) } else { 0 };
        let mut out = Vec::new();
        for _ in 0..n {
            let s = self.stmt(ctx, d);
            out.push(s);
        }
        out
    }

    /// a statement; may add declarations to `ctx` (visible to later siblings in the same sequence)
    fn stmt(&mut self, ctx: &mut Ctx, d: usize) -> Ex {
        if d == 0 || !self.spend(2) {
            return self.simple_stmt(ctx);
        }
        match self.rng.weighted(&[14, 6, 6, 6, 5, 5, 4, 4, 3, 3, 4, 3, 2]) {
            0 => self.simple_stmt(ctx),
            12 => {
                // closures made in a child scope (one per loop iteration) of a scope that holds no
                // variable yet; that scope then declares a name the closures mention, and they are
                // called: they must find the later declaration (variables are captured, not values,
                // and a scope is a scope whether or not it is empty when its children are made)
                if self.frozen_body {
                    return self.simple_stmt(ctx);
                }
                self.feat("forward-reference-into-empty-scope");
                let cs = self.fresh("c");
                let fw = self.fresh("w");
                let i = self.fresh("i");
                let a = self.int_lit();
                let b = self.int_lit();
                let k = self.int_expr(ctx, 1);
                let reader = Ex::Lambda(vec![], Box::new(bin(var(&fw), "+", var(&i))));
                let writer = Ex::Lambda(
                    vec![],
                    Box::new(Ex::Seq(
                        vec![Ex::OpAssign(false, Box::new(lv(&fw)), "+".into(), Box::new(var(&i))), var(&fw)],
                        false,
                    )),
                );
                let made = if self.rng.chance(1, 3) { writer } else { reader };
                let block = Ex::Seq(
                    vec![
                        declare(
                            &cs,
                            Ex::For(
                                vec![Clause::Each(lv(&i), Ex::List(vec![a, b]))],
                                Box::new(ForBody::Yield(made, None)),
                            ),
                        ),
                        declare(&fw, k),
                        Ex::List(vec![
                            Ex::Call(Box::new(Ex::Index(Box::new(var(&cs)), Box::new(int(0)))), vec![]),
                            Ex::Call(Box::new(Ex::Index(Box::new(var(&cs)), Box::new(int(1)))), vec![]),
                            var(&fw),
                        ]),
                    ],
                    false,
                );
                match self.rng.below(4) {
                    0 => Ex::Call(Box::new(Ex::Lambda(vec![], Box::new(block))), vec![]),
                    1 => {
                        let n = self.fresh("n");
                        let res = self.fresh("r");
                        Ex::Call(
                            Box::new(Ex::Lambda(
                                vec![lv(&n)],
                                Box::new(Ex::Seq(
                                    vec![
                                        declare(&res, Ex::Null),
                                        Ex::While(
                                            Box::new(bin(var(&n), "<", int(1))),
                                            Box::new(Ex::Seq(
                                                vec![
                                                    Ex::OpAssign(false, Box::new(lv(&n)), "+".into(), Box::new(int(1))),
                                                    Ex::Assign(false, Box::new(lv(&res)), Box::new(block)),
                                                ],
                                                false,
                                            )),
                                        ),
                                        var(&res),
                                    ],
                                    false,
                                )),
                            )),
                            vec![int(0)],
                        )
                    }
                    2 => Ex::Try(Box::new(Ex::Throw(Box::new(int(1)))), Box::new(Lv::Underscore), Box::new(block)),
                    _ => Ex::Switch(Box::new(self.int_lit()), vec![(Lv::Underscore, block)]),
                }
            }
            1 if self.rng.chance(1, 4) => {
                // both branches declare the same name: it is declared afterwards whichever ran
                self.feat("declared-in-both-branches");
                let c = self.int_expr(ctx, 2);
                let name = self.fresh("x");
                let a = declare(&name, self.int_expr(ctx, 1));
                let b = declare(&name, self.int_expr(ctx, 1));
                ctx.ints.push(name);
                Ex::If(Box::new(c), Box::new(Ex::Seq(vec![a], false)), Some(Box::new(Ex::Seq(vec![b], false))))
            }
            1 => {
                // if / if-else; branches do not open a scope, so their declarations are not used later
                let c = self.int_expr(ctx, 2);
                let mut c1 = ctx.clone();
                let stmts = self.seq_stmts(&mut c1, d - 1, 1, 2);
                let trailing = self.rng.chance(1, 4);
                let a = Ex::Seq(stmts, trailing);
                if self.rng.chance(1, 2) {
                    let mut c2 = ctx.clone();
                    let b = Ex::Seq(self.seq_stmts(&mut c2, d - 1, 1, 2), false);
                    Ex::If(Box::new(c), Box::new(a), Some(Box::new(b)))
                } else {
                    Ex::If(Box::new(c), Box::new(a), None)
                }
            }
            2 => {
                // while with a counter declared outside (condition and body share the fresh scope of
                // each iteration)
                self.feat("while");
                let cn = self.fresh("c");
                let k = self.rng.range(0, 4);
                let decl = declare(&cn, int(0));
                let mut inner = ctx.clone();
                inner.consts.push(cn.clone());
                inner.loop_depth += 1;
                let mut body = vec![Ex::OpAssign(false, Box::new(lv(&cn)), "+".into(), Box::new(int(1)))];
                if self.rng.chance(1, 3) {
                    self.shadow(&mut inner, &mut body);
                }
                body.extend(self.seq_stmts(&mut inner, d - 1, 1, 3));
                let w = Ex::While(Box::new(bin(var(&cn), "<", int(k))), Box::new(Ex::Seq(body, false)));
                ctx.consts.push(cn);
                Ex::Seq(vec![decl, w], false)
            }
            3 => {
                // for with a statement body
                self.feat("for");
                let (cl, mut inner) = self.clauses(ctx, d - 1);
                inner.loop_depth = ctx.loop_depth + 1;
                let mut body = Vec::new();
                if self.rng.chance(1, 3) {
                    self.shadow(&mut inner, &mut body);
                }
                body.extend(self.seq_stmts(&mut inner, d - 1, 1, 3));
                Ex::For(cl, Box::new(ForBody::Do(Ex::Seq(body, false))))
            }
            4 => {
                // break / continue with repeat counts, lexically inside loops of this function
                if ctx.loop_depth == 0 {
                    return self.simple_stmt(ctx);
                }
                self.feat("break-continue");
                let lvl = self.rng.below(ctx.loop_depth);
                if lvl > 0 {
                    self.feat("multi-level-exit");
                }
                let c = self.int_expr(ctx, 2);
                let exit = if self.rng.chance(1, 2) {
                    Ex::Continue(lvl)
                } else if self.rng.chance(1, 2) {
                    Ex::Break(lvl, None)
                } else {
                    Ex::Break(lvl, Some(Box::new(self.int_expr(ctx, 1))))
                };
                Ex::If(Box::new(c), Box::new(exit), None)
            }
            5 => {
                // try / catch / throw
                self.feat("try");
                let mut c1 = ctx.clone();
                let mut body = Vec::new();
                // a declaration at the start of the try body is visible in the handler (the body
                // opens no scope of its own)
                let mut seen_by_handler: Option<String> = None;
                if self.rng.chance(1, 3) {
                    self.feat("try-decl-read-in-handler");
                    let t = self.fresh("x");
                    // (a plain literal: the declaration itself cannot fail, so the handler may rely on it)
                    body.push(declare(&t, int(self.rng.range(0, 9))));
                    c1.ints.push(t.clone());
                    seen_by_handler = Some(t);
                }
                body.extend(self.seq_stmts(&mut c1, d - 1, 1, 2));
                if self.rng.chance(1, 2) {
                    self.feat("throw");
                    let c = self.int_expr(&c1, 1);
                    let t = Ex::Throw(Box::new(self.int_expr(&c1, 1)));
                    body.push(Ex::If(Box::new(c), Box::new(t), None));
                    body.extend(self.seq_stmts(&mut c1, d - 1, 0, 2));
                }
                let mut c2 = ctx.clone();
                if let Some(t) = seen_by_handler {
                    c2.ints.push(t);
                }
                let pat = if self.rng.chance(1, 5) {
                    // a literal pattern: other errors pass through
                    self.feat("catch-literal");
                    Lv::Lit(Box::new(int(self.rng.range(0, 3))))
                } else {
                    lv("err")
                };
                let handler = Ex::Seq(self.seq_stmts(&mut c2, d - 1, 1, 2), false);
                Ex::Try(Box::new(Ex::Seq(body, false)), Box::new(pat), Box::new(handler))
            }
            6 => {
                // declare a function
                self.feat("lambda");
                let (lam, lo, hi) = self.lambda(ctx, d - 1);
                let name = self.fresh("f");
                ctx.funcs.push((name.clone(), lo, hi));
                declare(&name, lam)
            }
            7 => {
                // a closure per loop iteration escapes through the session list `fs`
                if ctx.ints.is_empty() || self.frozen_body {
                    return self.simple_stmt(ctx);
                }
                self.feat("escaping-closure");
                let v = self.rng.pick(&ctx.ints).clone();
                let body = match self.rng.below(3) {
                    0 => var(&v),
                    1 => bin(var(&v), "*", int(10)),
                    _ => Ex::Seq(
                        vec![Ex::OpAssign(false, Box::new(lv(&v)), "+".into(), Box::new(int(1))), var(&v)],
                        false,
                    ),
                };
                Ex::OpAssign(
                    false,
                    Box::new(lv("fs")),
                    "append".into(),
                    Box::new(Ex::Lambda(vec![], Box::new(body))),
                )
            }
            8 => {
                // a statement-level switch; arms have their own scope
                self.feat("switch");
                let scrut = self.int_expr(ctx, 2);
                let mut arms = Vec::new();
                for _ in 0..(1 + self.rng.below(2)) {
                    let mut c1 = ctx.clone();
                    let b = Ex::Seq(self.seq_stmts(&mut c1, d - 1, 1, 2), false);
                    arms.push((Lv::Lit(Box::new(int(self.rng.range(0, 3)))), b));
                }
                let mut c1 = ctx.clone();
                // the binding arm's name is sometimes the name of an outer variable: inside the
                // arm it is the arm's own variable, after the switch the outer one again
                let outer_names: Vec<String> = ctx.consts.iter().chain(ctx.ints.iter()).cloned().collect();
                let name = if !outer_names.is_empty() && self.rng.chance(1, 3) {
                    self.feat("switch-arm-shadows-outer");
                    self.rng.pick(&outer_names).clone()
                } else {
                    self.fresh("w")
                };
                c1.consts.retain(|x| x != &name);
                if !c1.ints.contains(&name) {
                    c1.ints.push(name.clone());
                }
                let b = Ex::Seq(self.seq_stmts(&mut c1, d - 1, 1, 0), false);
                arms.push((lv(&name), b));
                Ex::Switch(Box::new(scrut), arms)
            }
            9 => {
                // a mutable cell: two closures sharing one captured variable
                self.feat("shared-cell");
                let g = self.fresh("f");
                let s = self.fresh("f");
                let init = self.int_expr(ctx, 1);
                let mk = Ex::Lambda(
                    vec![lv("init")],
                    Box::new(Ex::Seq(
                        vec![
                            declare("cell", var("init")),
                            Ex::List(vec![
                                Ex::Lambda(vec![], Box::new(var("cell"))),
                                Ex::Lambda(
                                    vec![lv("nv")],
                                    Box::new(Ex::Assign(false, Box::new(lv("cell")), Box::new(var("nv")))),
                                ),
                            ]),
                        ],
                        false,
                    )),
                );
                ctx.funcs.push((g.clone(), 0, 0));
                ctx.funcs.push((s.clone(), 1, 1));
                Ex::Assign(
                    false,
                    Box::new(Lv::Seq(
                        vec![Lv::Annot(Box::new(lv(&g)), None), Lv::Annot(Box::new(lv(&s)), None)],
                        false,
                    )),
                    Box::new(Ex::Call(Box::new(mk), vec![init])),
                )
            }
            10 => {
                // a nested sequence (no new scope)
                let stmts = self.seq_stmts(ctx, d - 1, 2, 2);
                let trailing = self.rng.chance(1, 5);
                Ex::Seq(stmts, trailing)
            }
            _ => {
                // declare a list from a comprehension
                self.feat("yield");
                let name = self.fresh("l");
                let e = self.for_yield(ctx, d);
                ctx.lists.push(name.clone());
                declare(&name, e)
            }
        }
    }

    /// shadow an outer variable in a fresh inner scope and mutate the inner one
    fn shadow(&mut self, inner: &mut Ctx, body: &mut Vec<Ex>) {
        let cands: Vec<String> = inner.ints.iter().chain(inner.consts.iter()).cloned().collect();
        if cands.is_empty() {
            return;
        }
        self.feat("shadowing");
        let v = self.rng.pick(&cands).clone();
        // inside this scope the name is now a local, assignable variable
        inner.consts.retain(|x| x != &v);
        if !inner.ints.contains(&v) {
            inner.ints.push(v.clone());
        }
        if self.rng.chance(1, 2) {
            // read the outer variable first: until the local declaration runs, the name means the
            // outer one (also in the same block)
            self.feat("outer-read-before-local-declaration");
            body.push(call("print", vec![var(&v)]));
        }
        body.push(declare(&v, int(self.rng.range(50, 59))));
        body.push(Ex::OpAssign(false, Box::new(lv(&v)), "+".into(), Box::new(int(1))));
    }

    fn simple_stmt(&mut self, ctx: &mut Ctx) -> Ex {
        match self.rng.weighted(&[6, 8, 6, 5, 6, 3]) {
            0 => {
                let name = self.fresh("x");
                let e = self.int_expr(ctx, 2);
                ctx.ints.push(name.clone());
                if !ctx.types.is_empty() && self.rng.chance(1, 3) {
                    // annotated with a type held in an outer variable
                    self.feat("annotated-local");
                    let t = self.rng.pick(&ctx.types).clone();
                    Ex::Assign(
                        false,
                        Box::new(Lv::Annot(Box::new(lv(&name)), Some(Box::new(var(&t))))),
                        Box::new(e),
                    )
                } else if !self.frozen_body && self.rng.chance(1, 8) {
                    // a declaration made by evaluated text lands in the calling scope
                    self.feat("eval-declaration");
                    Ex::EvalOf(Box::new(declare(&name, e)))
                } else {
                    declare(&name, e)
                }
            }
            1 => {
                if ctx.ints.is_empty() {
                    return call("print", vec![self.int_lit()]);
                }
                let v = self.rng.pick(&ctx.ints).clone();
                let e = self.int_expr(ctx, 2);
                if self.rng.chance(1, 2) {
                    Ex::Assign(false, Box::new(lv(&v)), Box::new(e))
                } else {
                    let op = *self.rng.pick(&["+", "-", "max", "min"]);
                    Ex::OpAssign(false, Box::new(lv(&v)), op.into(), Box::new(e))
                }
            }
            2 => {
                if ctx.lists.is_empty() {
                    return call("print", vec![self.int_lit()]);
                }
                let v = self.rng.pick(&ctx.lists).clone();
                let e = self.int_expr(ctx, 2);
                Ex::OpAssign(false, Box::new(lv(&v)), "append".into(), Box::new(e))
            }
            3 => {
                self.has_print = true;
                let e = self.int_expr(ctx, 2);
                let f = *self.rng.pick(&["print", "print", "echo", "write"]);
                if self.rng.chance(1, 3) && !ctx.lists.is_empty() {
                    call(f, vec![e, var(&self.rng.pick(&ctx.lists).clone())])
                } else {
                    call(f, vec![e])
                }
            }
            4 => {
                if ctx.funcs.is_empty() {
                    return call("print", vec![self.int_lit()]);
                }
                self.call_expr(ctx, 2)
            }
            _ => {
                if ctx.in_lambda && self.rng.chance(1, 2) {
                    self.feat("return");
                    let c = self.int_expr(ctx, 1);
                    Ex::If(Box::new(c), Box::new(Ex::Return(Some(Box::new(self.int_expr(ctx, 1))))), None)
                } else {
                    self.int_expr(ctx, 2)
                }
            }
        }
    }
}

pub fn generate(seed: u64, fault_free: bool) -> FlowOut {
    let mut pre = Rng::new(seed ^ 0xf10e);
    let cfg = RunCfg {
        hash_seed: pre.next(),
        short_writes: !fault_free && pre.chance(1, 2),
        eintr_every: if !fault_free && pre.chance(1, 2) { 2 + pre.below(5) as u32 } else { 0 },
        refuse_with_zero: pre.chance(1, 2),
        writer_seed: pre.next(),
        allow_redecl: false,
        ..RunCfg::default()
    };
    let mut g = Gen::new(seed, cfg);
    if !fault_free && pre.chance(1, 3) {
        g.cancel_den = 4 + pre.below(8) as u32;
    }
    let mut fg = FlowGen {
        rng: Rng::new(seed ^ 0x5eed),
        next: 0,
        budget: 0,
        has_print: false,
        features: Vec::new(),
        fault: !fault_free,
        frozen_body: false,
    };
    let mut ctx = Ctx {
        consts: Vec::new(),
        ints: Vec::new(),
        lists: Vec::new(),
        ro_lists: Vec::new(),
        ops: Vec::new(),
        types: Vec::new(),
        funcs: Vec::new(),
        loop_depth: 0,
        in_lambda: false,
    };
    // session state
    for (name, e) in [
        ("n0", int(3)),
        ("n1", int(0)),
        ("l0", Ex::List(vec![int(1), int(2), int(3)])),
        ("fs", Ex::List(vec![])),
    ] {
        if g.push("session-var", declare(name, e), vec![]).is_err() {
            return finish(g, &fg);
        }
    }
    ctx.ints.push("n0".into());
    ctx.ints.push("n1".into());
    ctx.lists.push("l0".into());

    let n_stmts = 4 + fg.rng.below(14);
    let mut out_limited = false;
    for _ in 0..n_stmts {
        fg.budget = 10 + fg.rng.below(50) as i64;
        fg.has_print = false;
        let ex = if fg.rng.chance(1, 6) {
            // scheduler action: invoke an escaped closure / all of them in a seed-chosen order
            fg.feat("invoke-escaped");
            match fg.rng.below(3) {
                0 => Ex::Call(
                    Box::new(Ex::Index(Box::new(var("fs")), Box::new(int(fg.rng.range(-3, 3))))),
                    vec![],
                ),
                1 => Ex::For(
                    vec![Clause::Each(lv("fcl"), call("reverse", vec![var("fs")]))],
                    Box::new(ForBody::Yield(Ex::Call(Box::new(var("fcl")), vec![]), None)),
                ),
                _ => Ex::For(
                    vec![Clause::Each(lv("fcl"), var("fs"))],
                    Box::new(ForBody::Yield(Ex::Call(Box::new(var("fcl")), vec![]), None)),
                ),
            }
        } else {
            let depth = 2 + fg.rng.below(3);
            fg.stmt(&mut ctx, depth)
        };
        // F1: the sink runs out of space inside this statement
        let mut faults = Vec::new();
        if !fault_free && fg.has_print && fg.rng.chance(1, 3) {
            faults.push(Fault::OutBudget(fg.rng.below(12)));
            out_limited = true;
            fg.feat("write-fault");
        } else if out_limited && fg.rng.chance(1, 2) {
            faults.push(Fault::OutUnlimited);
            out_limited = false;
        }
        match g.push("flow-stmt", ex, faults) {
            Ok(_) => {}
            Err(_) => break,
        }
        // declarations made by a top-level statement inside nested scopes are gone; the generator's
        // ctx only kept those of the top-level sequence, which live in the session scope
        if ctx.ints.len() > 12 {
            ctx.ints.drain(2..6);
        }
        if ctx.funcs.len() > 8 {
            ctx.funcs.drain(0..3);
        }
    }
    finish(g, &fg)
}

fn finish(mut g: Gen, fg: &FlowGen) -> FlowOut {
    let mut kinds = std::mem::take(&mut g.kinds);
    let mut feats: Vec<&'static str> = fg.features.clone();
    feats.sort();
    feats.dedup();
    for f in feats.iter() {
        kinds.push(format!("feature:{}", f));
    }
    let nontrivial = feats.iter().any(|f| {
        matches!(
            *f,
            "escaping-closure" | "multi-level-exit" | "shadowing" | "yield-break" | "shared-cell" | "write-fault" | "invoke-escaped"
        )
    });
    FlowOut {
        script: g.take_script(),
        kinds,
        nontrivial,
    }
}
