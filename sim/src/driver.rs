// Batch driver: seeded search over scripts and fault plans, sharded over OS threads (each run is
// thread-confined; results are keyed by run index, so the worker count changes nothing).

use crate::gen_alias;
use crate::gen_dict;
use crate::gen_fault;
use crate::gen_flow;
use crate::gen_freeze;
use crate::gen_stream;
use crate::gen_typed;
use crate::rng::{mix3, tag};
use crate::run::*;
use serde::{Deserialize, Serialize};
use serde_json::json;
use std::collections::{BTreeMap, BTreeSet};
use std::sync::atomic::{AtomicBool, AtomicU64, Ordering};
use std::sync::Mutex;
use std::time::Instant;

pub struct Generated {
    pub script: Script,
    pub kinds: Vec<String>,
    pub nontrivial: bool,
}

pub fn generate(profile: &str, seed: u64, index: u64) -> Generated {
    // even indices: fault-free configuration; odd: fault-injecting -- separate sub-batches so that a
    // relaxation can never hide an ordinary bug
    let fault_free = index % 2 == 0;
    match profile {
        "alias" => {
            let o = gen_alias::generate(seed, fault_free);
            Generated {
                script: o.script,
                kinds: o.kinds,
                nontrivial: o.nontrivial,
            }
        }
        "dict" => {
            let o = gen_dict::generate(seed, fault_free);
            Generated {
                script: o.script,
                kinds: o.kinds,
                nontrivial: o.nontrivial,
            }
        }
        "stream" => {
            let o = gen_stream::generate(seed, fault_free);
            Generated {
                script: o.script,
                kinds: o.kinds,
                nontrivial: o.nontrivial,
            }
        }
        "flow" => {
            let o = gen_flow::generate(seed, fault_free);
            Generated {
                script: o.script,
                kinds: o.kinds,
                nontrivial: o.nontrivial,
            }
        }
        "typed" => {
            let o = gen_typed::generate(seed, fault_free);
            Generated {
                script: o.script,
                kinds: o.kinds,
                nontrivial: o.nontrivial,
            }
        }
        "freeze" => {
            let o = gen_freeze::generate(seed, fault_free);
            Generated {
                script: o.script,
                kinds: o.kinds,
                nontrivial: o.nontrivial,
            }
        }
        "io" => {
            let o = crate::gen_io::generate(seed, fault_free);
            Generated {
                script: o.script,
                kinds: o.kinds,
                nontrivial: o.nontrivial,
            }
        }
        "alloc" => {
            let case = crate::alloc::generate(seed);
            let kinds = vec![
                format!("family:{}", case.family),
                format!("aliases:{}", case.events.iter().filter(|e| e.1.contains(":=") && e.1.starts_with("alias")).count()),
                format!("failing-op:{}", case.events.iter().any(|e| e.1.contains("boom=")) as u8),
            ];
            let nontrivial = !case.events.is_empty();
            Generated {
                script: Script {
                    cfg: RunCfg::default(),
                    stmts: Vec::new(),
                    alloc: Some(case),
                },
                kinds,
                nontrivial,
            }
        }
        "sweep" | "sweep-full" => {
            let o = gen_fault::generate(seed, index, profile == "sweep-full");
            Generated {
                script: o.script,
                kinds: o.kinds,
                nontrivial: o.nontrivial,
            }
        }
        "sweep-inf-probe" => {
            let o = gen_fault::generate_mode(seed, index, true, gen_fault::InfMode::OnlyInf);
            Generated {
                script: o.script,
                kinds: o.kinds,
                nontrivial: o.nontrivial,
            }
        }
        p => panic!("unknown profile {}", p),
    }
}

#[derive(Clone, Debug, Serialize, Deserialize)]
pub struct Replay {
    pub property: String,
    pub profile: String,
    pub base_seed: u64,
    pub run_index: u64,
    pub violation: Violation,
    pub script: Script,
    pub rendered: Vec<String>,
    pub minimised: bool,
}

#[derive(Default)]
pub struct Agg {
    pub runs: u64,
    pub completed: u64,
    pub inconclusive: u64,
    pub inconclusive_reasons: BTreeMap<String, u64>,
    pub stmts: u64,
    pub ticks: u64,
    pub raised: u64,
    pub values: u64,
    pub cancelled: u64,
    pub short_writes: u64,
    pub eintr: u64,
    pub refused: u64,
    pub probes: BTreeMap<String, u64>,
    pub kinds: BTreeMap<String, u64>,
    pub state_hashes: BTreeSet<u64>,
    pub script_hashes: BTreeSet<u64>,
    pub nontrivial_hashes: BTreeSet<u64>,
    pub hash_modes: BTreeMap<String, u64>,
    pub violations: Vec<(u64, Violation, Script)>,
    pub samples: Vec<serde_json::Value>,
    pub t_gen: f64,
    pub t_exec: f64,
    pub slowest: (f64, f64, u64),
}

fn hash_str(s: &str) -> u64 {
    let mut h: u64 = 0xcbf2_9ce4_8422_2325;
    for b in s.bytes() {
        h = (h ^ b as u64).wrapping_mul(0x0000_0100_0000_01b3);
    }
    h
}

pub fn rendered(script: &Script) -> Vec<String> {
    if let Some(c) = &script.alloc {
        let mut out = vec![format!("# allocation family `{}`, sizes n = {}, {}, {}", c.family, c.n0, 2 * c.n0, 4 * c.n0)];
        out.extend(c.setup.iter().map(|s| format!("setup:  {}", s)));
        out.extend(c.mutate.iter().map(|s| format!("mutate: {}   (cycled n times)", s)));
        out.extend(c.events.iter().map(|(f, s)| format!("event at {}/16 of the phase: {}", f, s)));
        return out;
    }
    script.stmts.iter().map(|s| crate::ir::render_top(&s.ex)).collect()
}

pub const HANG_SECS: u64 = 45;

pub struct BatchCfg {
    /// on a hang: property and replay directory for the report (None: print and exit 2)
    pub hang_report: Option<(String, String)>,
    /// run only indices congruent to `only_mod.0` modulo `only_mod.1` (probing tool)
    pub only_mod: Option<(u64, u64)>,
    pub profile: String,
    pub base_seed: u64,
    pub runs: u64,
    pub threads: usize,
    pub wall_cap_s: f64,
    pub log_dir: Option<String>,
}

pub fn run_batch(cfg: &BatchCfg) -> (Agg, f64, bool) {
    let start = Instant::now();
    let next = AtomicU64::new(0);
    let stop = AtomicBool::new(false);
    let capped = AtomicBool::new(false);
    let agg = Mutex::new(Agg::default());
    let done = AtomicBool::new(false);
    std::thread::scope(|s| {
        // hang watchdog: a statement that does not return for HANG_SECS of wall clock is reported
        // as a violation of "never hangs on terminating input" (generated arguments are small)
        s.spawn(|| {
            while !done.load(Ordering::Relaxed) {
                std::thread::sleep(std::time::Duration::from_millis(250));
                for w in 0..cfg.threads.min(MAX_WORKERS - 1) {
                    let run1 = PROGRESS_RUN[w].load(Ordering::Relaxed);
                    let since = PROGRESS_SINCE_MS[w].load(Ordering::Relaxed);
                    if run1 != 0 && since != 0 && now_ms().saturating_sub(since) > HANG_SECS * 1000 {
                        let i = run1 - 1;
                        let stmt = PROGRESS_STMT[w].load(Ordering::Relaxed) as usize;
                        report_hang(cfg, i, stmt);
                    }
                }
            }
        });
        for wid in 0..cfg.threads {
            let next = &next;
            let stop = &stop;
            let capped = &capped;
            let agg = &agg;
            let h = std::thread::Builder::new().stack_size(256 << 20).spawn_scoped(s, move || {
                install_panic_hook();
                let mut local = Agg::default();
                loop {
                    if stop.load(Ordering::Relaxed) {
                        break;
                    }
                    let i = next.fetch_add(1, Ordering::Relaxed);
                    if i >= cfg.runs {
                        break;
                    }
                    if let Some((r, m)) = cfg.only_mod {
                        if i % m != r {
                            continue;
                        }
                    }
                    if i % 256 == 0 && start.elapsed().as_secs_f64() > cfg.wall_cap_s {
                        // the cap only stops launching runs; no verdict depends on it
                        capped.store(true, Ordering::Relaxed);
                        stop.store(true, Ordering::Relaxed);
                        break;
                    }
                    let seed = mix3(cfg.base_seed, tag(&cfg.profile), i);
                    set_worker(wid, i + 1);
                    let t0 = Instant::now();
                    let g = generate(&cfg.profile, seed, i);
                    let t1 = Instant::now();
                    let res = execute(&g.script);
                    let t2 = Instant::now();
                    local.t_gen += (t1 - t0).as_secs_f64();
                    local.t_exec += (t2 - t1).as_secs_f64();
                    if (t2 - t0).as_secs_f64() > local.slowest.0 + local.slowest.1 {
                        local.slowest = ((t1 - t0).as_secs_f64(), (t2 - t1).as_secs_f64(), i);
                    }
                    local.runs += 1;
                    let rend = rendered(&g.script);
                    let sh = hash_str(&rend.join("\n"));
                    local.script_hashes.insert(sh);
                    if g.nontrivial {
                        local.nontrivial_hashes.insert(sh);
                    }
                    for k in g.kinds.iter() {
                        *local.kinds.entry(k.clone()).or_insert(0) += 1;
                    }
                    let hm = format!(
                        "key_hash_mode={} shared={}",
                        g.script.cfg.key_hash_mode, g.script.cfg.hash_shared
                    );
                    *local.hash_modes.entry(hm).or_insert(0) += 1;
                    local.stmts += res.stats.stmts_run;
                    local.ticks += res.stats.ticks;
                    local.raised += res.stats.raised;
                    local.values += res.stats.values;
                    local.cancelled += res.stats.cancelled;
                    if let Some(w) = &res.stats.writer {
                        local.short_writes += w.short_writes;
                        local.eintr += w.eintr;
                        local.refused += w.refused;
                    }
                    for (k, v) in res.stats.probes.iter() {
                        *local.probes.entry(k.clone()).or_insert(0) += v;
                    }
                    for h in res.stats.state_hashes.iter() {
                        if local.state_hashes.len() < 2_000_000 {
                            local.state_hashes.insert(*h);
                        }
                    }
                    if let Some(dir) = &cfg.log_dir {
                        let path = format!("{}/{:08}.log", dir, i);
                        let mut text = format!("seed={} index={}\n", seed, i);
                        for l in res.log.iter() {
                            text.push_str(l);
                            text.push('\n');
                        }
                        text.push_str(&format!("end={}\n", match &res.end {
                            RunEnd::Completed => "completed".to_string(),
                            RunEnd::Inconclusive(m) => format!("inconclusive: {}", m),
                            RunEnd::Violation(v) => format!("violation: {:?}", v.kind),
                        }));
                        std::fs::write(path, text).unwrap();
                    }
                    for v in res.nonfatal.iter() {
                        local.violations.push((i, v.clone(), g.script.clone()));
                    }
                    match res.end {
                        RunEnd::Completed => {
                            local.completed += 1;
                            if local.samples.len() < 2 && g.nontrivial {
                                local.samples.push(json!({"run_index": i, "seed": seed, "script": rend}));
                            }
                        }
                        RunEnd::Inconclusive(m) => {
                            local.inconclusive += 1;
                            let key: String = m.chars().take(60).collect();
                            *local.inconclusive_reasons.entry(key).or_insert(0) += 1;
                        }
                        RunEnd::Violation(v) => {
                            local.violations.push((i, v, g.script.clone()));
                        }
                    }
                }
                set_worker(wid, 0);
                let mut a = agg.lock().unwrap();
                merge(&mut a, local);
            });
            h.unwrap();
        }
        // scoped threads are joined at the end of the scope; tell the watchdog to stop once the
        // workers are done
        let done = &done;
        let nthreads = cfg.threads;
        s.spawn(move || loop {
            std::thread::sleep(std::time::Duration::from_millis(100));
            let busy = (0..nthreads.min(MAX_WORKERS - 1)).any(|w| PROGRESS_RUN[w].load(Ordering::Relaxed) != 0);
            if !busy {
                done.store(true, Ordering::Relaxed);
                break;
            }
        });
    });
    let mut a = agg.into_inner().unwrap();
    a.violations.sort_by_key(|v| v.0);
    (a, start.elapsed().as_secs_f64(), capped.load(Ordering::Relaxed))
}

fn report_hang(cfg: &BatchCfg, i: u64, stmt: usize) -> ! {
    let seed = mix3(cfg.base_seed, tag(&cfg.profile), i);
    let g = generate(&cfg.profile, seed, i);
    let mut script = g.script;
    let stmt = stmt.min(script.stmts.len().saturating_sub(1));
    script.stmts.truncate(stmt + 1);
    let rend = rendered(&script);
    let v = Violation {
        kind: ViolationKind::Invariant("hang".into()),
        stmt_index: stmt,
        source: rend.last().cloned().unwrap_or_default(),
        expected: format!("the statement returns (value or error) within {} s of wall clock", HANG_SECS),
        observed: "no return: the interpreter hangs on small, terminating input".into(),
        detail: format!("profile={} base_seed={}", cfg.profile, cfg.base_seed),
    };
    match &cfg.hang_report {
        Some((property, dir)) => {
            let replay = Replay {
                property: "C14".to_string(),
                profile: cfg.profile.clone(),
                base_seed: cfg.base_seed,
                run_index: i,
                violation: v,
                rendered: rend.clone(),
                script,
                minimised: false,
            };
            let path = write_replay(dir, &replay);
            println!("--- hang at run {} statement {}:", i, stmt);
            for l in rend.iter().rev().take(3).rev() {
                println!("    {}", l);
            }
            println!("VIOLATION property=C14 replay={}", path);
            let _ = property;
            std::process::exit(1)
        }
        None => {
            println!("HANG at run {} statement {}: {}", i, stmt, rend.last().cloned().unwrap_or_default());
            std::process::exit(2)
        }
    }
}

fn merge(a: &mut Agg, b: Agg) {
    a.runs += b.runs;
    a.t_gen += b.t_gen;
    a.t_exec += b.t_exec;
    if b.slowest.0 + b.slowest.1 > a.slowest.0 + a.slowest.1 {
        a.slowest = b.slowest;
    }
    a.completed += b.completed;
    a.inconclusive += b.inconclusive;
    a.stmts += b.stmts;
    a.ticks += b.ticks;
    a.raised += b.raised;
    a.values += b.values;
    a.cancelled += b.cancelled;
    a.short_writes += b.short_writes;
    a.eintr += b.eintr;
    a.refused += b.refused;
    for (k, v) in b.inconclusive_reasons {
        *a.inconclusive_reasons.entry(k).or_insert(0) += v;
    }
    for (k, v) in b.probes {
        *a.probes.entry(k).or_insert(0) += v;
    }
    for (k, v) in b.kinds {
        *a.kinds.entry(k).or_insert(0) += v;
    }
    for (k, v) in b.hash_modes {
        *a.hash_modes.entry(k).or_insert(0) += v;
    }
    a.state_hashes.extend(b.state_hashes);
    a.script_hashes.extend(b.script_hashes);
    a.nontrivial_hashes.extend(b.nontrivial_hashes);
    a.violations.extend(b.violations);
    if a.samples.len() < 4 {
        a.samples.extend(b.samples);
        a.samples.truncate(4);
    }
}

fn arg_val(args: &[String], name: &str) -> Option<String> {
    args.iter().position(|a| a == name).and_then(|i| args.get(i + 1).cloned())
}

// ---------------------------------------------------------------------------------------------
// known findings

#[derive(Clone, Debug, Serialize, Deserialize)]
pub struct KnownFinding {
    pub id: String,
    pub property: String,
    /// violation kind name: Panic, State, ResultValue, OutcomeClass, Output, Invariant
    pub kind: String,
    /// regex on the failing statement's source text
    pub source_regex: String,
    /// regex on the observed text (panic payload, observed value, ...)
    pub observed_regex: String,
    /// optional regex that must match some earlier statement of the minimised script
    #[serde(default)]
    pub context_regex: Option<String>,
    pub what: String,
}

#[derive(Clone, Debug, Serialize, Deserialize, Default)]
pub struct KnownFindings {
    pub findings: Vec<KnownFinding>,
    #[serde(default)]
    pub fixed: Vec<String>,
}

pub fn load_known(path: &str) -> KnownFindings {
    match std::fs::read_to_string(path) {
        Ok(t) => serde_json::from_str(&t).expect("known_findings.json does not parse"),
        Err(_) => KnownFindings::default(),
    }
}

fn kind_name(k: &ViolationKind) -> String {
    match k {
        ViolationKind::Invariant(n) => format!("Invariant:{}", n),
        k => format!("{:?}", k),
    }
}

pub fn match_known<'a>(kf: &'a KnownFindings, script: &Script, v: &Violation) -> Option<&'a KnownFinding> {
    let rend = rendered(script);
    for f in kf.findings.iter() {
        if f.kind != kind_name(&v.kind) {
            continue;
        }
        let sr = regex::Regex::new(&f.source_regex).expect("bad source_regex");
        let or = regex::Regex::new(&f.observed_regex).expect("bad observed_regex");
        if !sr.is_match(&v.source) || !or.is_match(&v.observed) {
            continue;
        }
        if let Some(c) = &f.context_regex {
            let cr = regex::Regex::new(c).expect("bad context_regex");
            if !rend.iter().any(|l| cr.is_match(l)) {
                continue;
            }
        }
        return Some(f);
    }
    None
}

/// which property a violation is evidence against
pub fn property_of(check_property: &str, v: &Violation) -> String {
    match v.kind {
        ViolationKind::Panic => "C14".to_string(),
        _ => check_property.to_string(),
    }
}

/// (profile, runs) per tier. `runs` for sampled profiles scales with the tier; enumerating profiles
/// (sweep) derive it from the size of their grid.
pub fn profiles_for(property: &str, tier: &str) -> Vec<(&'static str, u64)> {
    let thorough = tier == "thorough";
    let nb = gen_fault::global_names().len() as u64;
    match property {
        "C01" => vec![("alias", if thorough { 3_000_000 } else { 200_000 })],
        "C02" => vec![("alloc", if thorough { 40_000 } else { 2_500 })],
        "C05" => vec![("flow", if thorough { 2_000_000 } else { 120_000 })],
        "C09" => vec![("dict", if thorough { 3_000_000 } else { 200_000 })],
        "C11" => vec![("stream", if thorough { 3_000_000 } else { 200_000 })],
        "C12" => vec![("typed", if thorough { 3_000_000 } else { 200_000 })],
        "C17" => vec![("freeze", if thorough { 2_000_000 } else { 150_000 })],
        "C14" => {
            if thorough {
                vec![
                    ("sweep-full", nb * gen_fault::parts_per_builtin()),
                    ("sweep", nb * 12),
                    ("alias", 600_000),
                    ("flow", 400_000),
                    ("stream", 300_000),
                    ("dict", 300_000),
                    ("io", 600_000),
                ]
            } else {
                vec![
                    ("sweep", nb * 4),
                    ("alias", 60_000),
                    ("flow", 40_000),
                    ("stream", 30_000),
                    ("dict", 30_000),
                    ("io", 40_000),
                ]
            }
        }
        p => panic!("no profile for property {}", p),
    }
}

pub fn level_for(property: &str) -> &'static str {
    match property {
        "C14" => "fault_enumeration",
        _ => "exploration",
    }
}

fn write_replay(dir: &str, r: &Replay) -> String {
    std::fs::create_dir_all(dir).unwrap();
    let path = format!(
        "{}/{}-{}-{}-{}-s{}.json",
        dir, r.property, r.profile, r.base_seed, r.run_index, r.violation.stmt_index
    );
    std::fs::write(&path, serde_json::to_string_pretty(r).unwrap()).unwrap();
    path
}

/// replay in a fresh process: must fail the same way
fn confirm_replay(path: &str) -> bool {
    let exe = std::env::current_exe().unwrap();
    match std::process::Command::new(exe).arg("replay").arg(path).output() {
        Ok(o) => o.status.code() == Some(1),
        Err(_) => false,
    }
}

pub fn do_replay(path: &str) -> i32 {
    let text = match std::fs::read_to_string(path) {
        Ok(t) => t,
        Err(e) => {
            eprintln!("cannot read {}: {}", path, e);
            return 2;
        }
    };
    let r: Replay = match serde_json::from_str(&text) {
        Ok(r) => r,
        Err(e) => {
            eprintln!("cannot parse {}: {}", path, e);
            return 2;
        }
    };
    let res = match execute_watched(&r.script, HANG_SECS) {
        Ok(res) => res,
        Err(stmt) => {
            println!("replay: statement {} does not return within {} s", stmt, HANG_SECS);
            if r.violation.kind == ViolationKind::Invariant("hang".into()) {
                println!("VIOLATION property={} replay={}", r.property, path);
                std::process::exit(1);
            }
            std::process::exit(3);
        }
    };
    for l in res.log.iter() {
        println!("{}", l);
    }
    for v in res.nonfatal.iter() {
        if crate::min::class_of(v) == crate::min::class_of(&r.violation) && v.stmt_index == r.violation.stmt_index {
            println!(
                "replay: violation kind={:?} stmt={} expected={} observed={}",
                v.kind, v.stmt_index, v.expected, v.observed
            );
            println!("VIOLATION property={} replay={}", r.property, path);
            return 1;
        }
    }
    match res.end {
        RunEnd::Violation(v) => {
            println!(
                "replay: violation kind={:?} stmt={} expected={} observed={}",
                v.kind, v.stmt_index, v.expected, v.observed
            );
            if crate::min::class_of(&v) == crate::min::class_of(&r.violation) && v.stmt_index == r.violation.stmt_index {
                println!("VIOLATION property={} replay={}", r.property, path);
                1
            } else {
                println!("replay: a different violation than recorded");
                3
            }
        }
        RunEnd::Completed => {
            println!("replay: completed without violation");
            0
        }
        RunEnd::Inconclusive(m) => {
            println!("replay: inconclusive: {}", m);
            0
        }
    }
}

pub fn do_check(args: &[String]) -> i32 {
    let property = arg_val(args, "--property").expect("--property");
    let tier = arg_val(args, "--tier")
        .or_else(|| std::env::var("VERIF_TIER").ok())
        .unwrap_or_else(|| "quick".to_string());
    let seed: u64 = std::env::var("VERIF_SEED")
        .ok()
        .and_then(|s| s.parse().ok())
        .unwrap_or(20260922);
    let threads: usize = arg_val(args, "--threads").and_then(|s| s.parse().ok()).unwrap_or(16);
    let evidence_path = arg_val(args, "--evidence").unwrap_or_else(|| format!("evidence/{}.json", property));
    let replay_dir = arg_val(args, "--replays").unwrap_or_else(|| "replays".to_string());
    let known = load_known(&arg_val(args, "--known").unwrap_or_else(|| "known_findings.json".to_string()));
    let (cap, seeds): (f64, Vec<u64>) = if tier == "thorough" {
        (
            arg_val(args, "--cap").and_then(|s| s.parse().ok()).unwrap_or(1500.0),
            vec![seed, seed.wrapping_add(1), seed.wrapping_mul(31).wrapping_add(7)],
        )
    } else {
        (arg_val(args, "--cap").and_then(|s| s.parse().ok()).unwrap_or(240.0), vec![seed])
    };
    let runs_override: Option<u64> = arg_val(args, "--runs").and_then(|s| s.parse().ok());
    println!("VERIF_SEED={} property={} tier={}", seed, property, tier);
    let start = Instant::now();
    let profiles = profiles_for(&property, &tier);
    let mut total = Agg::default();
    let mut capped_any = false;
    let mut per_profile = Vec::new();
    for (prof, prof_runs) in profiles.iter() {
        // enumerating profiles walk their grid once; the seed only varies hasher/sample choices
        let enumerating = prof.starts_with("sweep-full");
        let seeds_here: Vec<u64> = if enumerating { vec![seeds[0]] } else { seeds.clone() };
        let runs = runs_override.unwrap_or(*prof_runs);
        for (si, s) in seeds_here.iter().enumerate() {
            let cfg = BatchCfg {
                hang_report: Some((property.clone(), replay_dir.clone())),
                only_mod: None,
                profile: prof.to_string(),
                base_seed: *s,
                runs: (runs / seeds_here.len() as u64).max(1),
                threads,
                wall_cap_s: cap / (profiles.len() * seeds.len()) as f64,
                log_dir: None,
            };
            let (agg, wall, capped) = run_batch(&cfg);
            capped_any |= capped;
            per_profile.push(json!({"profile": prof, "seed": s, "seed_no": si, "runs": agg.runs, "wall_s": wall, "capped": capped}));
            let mut tagged = agg;
            // remember which batch a violation came from
            for v in tagged.violations.iter_mut() {
                v.1.detail = format!("profile={} base_seed={}", prof, s);
            }
            merge(&mut total, tagged);
        }
    }
    total.violations.sort_by_key(|v| v.0);

    // triage violations: minimise, match against known findings, confirm by replay
    let mut new_violations: Vec<String> = Vec::new();
    let mut known_hits: BTreeMap<String, u64> = BTreeMap::new();
    let mut foreign_hits: BTreeMap<String, u64> = BTreeMap::new();
    let mut harness_errors = 0;
    let mut seen_classes: BTreeMap<String, u64> = BTreeMap::new();
    let violation_count = total.violations.len();
    for (idx, v, script) in total.violations.iter() {
        let cls = format!("{}|{}", crate::min::class_of(v), v.source);
        let n = seen_classes.entry(cls).or_insert(0);
        *n += 1;
        if *n > 1 || seen_classes.len() > 12 {
            // same statement text and class as one already triaged, or enough distinct reports
            continue;
        }
        let (ms, mv) = crate::min::minimise(script, v, 3000);
        let prop_of = property_of(&property, &mv);
        if let Some(f) = match_known(&known, &ms, &mv) {
            *known_hits.entry(f.id.clone()).or_insert(0) += 1;
            continue;
        }
        if prop_of != property {
            // a crash found by another property's workload: C14's own check reports it
            *foreign_hits.entry(format!("{}: {}", prop_of, mv.observed)).or_insert(0) += 1;
            continue;
        }
        let (profile, base_seed) = {
            let mut p = String::new();
            let mut b = 0u64;
            for part in v.detail.split(' ') {
                if let Some(x) = part.strip_prefix("profile=") {
                    p = x.to_string();
                }
                if let Some(x) = part.strip_prefix("base_seed=") {
                    b = x.parse().unwrap_or(0);
                }
            }
            (p, b)
        };
        let replay = Replay {
            property: prop_of.clone(),
            profile,
            base_seed,
            run_index: *idx,
            violation: mv.clone(),
            rendered: rendered(&ms),
            script: ms,
            minimised: true,
        };
        let path = write_replay(&replay_dir, &replay);
        if confirm_replay(&path) {
            println!("--- violation (minimised to {} statements):", replay.rendered.len());
            for l in replay.rendered.iter() {
                println!("    {}", l);
            }
            println!("    expected: {}", mv.expected);
            println!("    observed: {}", mv.observed);
            println!("VIOLATION property={} replay={}", prop_of, path);
            new_violations.push(path);
        } else {
            println!("HARNESS-ERROR: violation did not replay in a fresh process: {}", path);
            harness_errors += 1;
        }
    }
    for f in known.findings.iter().filter(|f| f.property == property) {
        println!(
            "KNOWN-FINDING: property={} {} [{}; hit {} time(s) in this run]",
            f.property,
            f.what,
            f.id,
            known_hits.get(&f.id).cloned().unwrap_or(0)
        );
    }
    for (k, n) in foreign_hits.iter() {
        println!("note: foreign violation seen {} time(s): {}", n, k);
    }

    let wall = start.elapsed().as_secs_f64();
    // evidence
    let rule = "cases are generated sessions (scripts of NL-core statements + fault plan + hasher configuration) drawn from the property's swarm profile by a PRNG seeded from VERIF_SEED and the run index; a case is non-trivial when the profile's trigger condition occurred (stated per profile in DESIGN.md section 5: for `alias` at least one mutation statement after at least one alias-creating statement); distinct = distinct rendered script text";
    let ev = json!({
        "property_id": property,
        "tier": tier,
        "seed": seed,
        "level": level_for(&property),
        "wall_s": wall,
        "violations": new_violations.len(),
        "assumptions": [
            "the reference model (sim/src/model.rs, builtins.rs) encodes the documented semantics; runs where it declines to predict are counted as inconclusive and never as violations",
            "hooks H1/H2 (cfg betaveros_noulith_verif) do not change interpreter behaviour other than bounding evaluation and choosing hash seeds",
            "seeded sampling: a clean batch is evidence, not proof"
        ],
        "coverage": {
            "evaluations": total.runs,
            "distinct_nontrivial": total.nontrivial_hashes.len(),
            "rule": rule,
            "samples": total.samples,
            "exhaustive": false,
            "runs_completed": total.completed,
            "runs_inconclusive": total.inconclusive,
            "inconclusive_reasons": total.inconclusive_reasons,
            "runs_per_hour": if wall > 0.0 { (total.runs as f64 / wall * 3600.0) as u64 } else { 0 },
            "seeds": seeds,
            "batches": per_profile,
            "capped_by_wall_clock": capped_any,
            "statements_executed": total.stmts,
            "simulated_time_interpreter_steps": total.ticks,
            "outcomes": {"value": total.values, "raised": total.raised, "cancelled": total.cancelled},
            "faults_fired": {
                "write_refused_F1": total.refused,
                "short_write_F2": total.short_writes,
                "eintr_F3": total.eintr,
                "cancellation_F7": total.cancelled,
                "ill_formed_statement_raised_F10": total.raised,
                "read_error_F5": total.probes.get("input_read_error_fired").copied().unwrap_or(0),
                "read_eintr_F5": total.probes.get("input_eintr_fired").copied().unwrap_or(0),
                "failing_callback_raised_F6": total.probes.get("catch_ran").copied().unwrap_or(0),
            },
            "hasher_configurations_F8": total.hash_modes,
            "probes": total.probes,
            "statement_kinds": total.kinds,
            "states": total.state_hashes.len(),
            "distinct_scripts": total.script_hashes.len(),
            "violations_raw": violation_count,
            "known_findings_hit": known_hits,
            "foreign_violations": foreign_hits,
            "components": {
                "real": ["lexer", "parser", "evaluate", "all builtins", "numeric tower", "streams", "copy-on-write Rc machinery", "Env/TopEnv", "dependencies (num, regex, flate2)"],
                "stub": ["TopEnv.output (SimWriter)", "TopEnv.input (SimReader)", "HashMap BuildHasher (H2 seam)", "evaluation budget (H1 seam)", "global allocator wrapper (counting)"]
            }
        }
    });
    if let Some(dir) = std::path::Path::new(&evidence_path).parent() {
        let _ = std::fs::create_dir_all(dir);
    }
    std::fs::write(&evidence_path, serde_json::to_string_pretty(&ev).unwrap()).unwrap();
    println!(
        "runs={} completed={} inconclusive={} raw_violations={} new={} known_hits={:?} wall={:.1}s",
        total.runs,
        total.completed,
        total.inconclusive,
        violation_count,
        new_violations.len(),
        known_hits,
        wall
    );
    if harness_errors > 0 {
        return 2;
    }
    if new_violations.is_empty() {
        0
    } else {
        1
    }
}

pub fn main(args: Vec<String>) -> i32 {
    install_panic_hook();
    let cmd = args.get(1).map(|s| s.as_str()).unwrap_or("");
    match cmd {
        "check" => do_check(&args),
        "list-builtins" => {
            for (i, n) in gen_fault::global_names().iter().enumerate() {
                println!("{} {}", i, n);
            }
            println!("parts_per_builtin {}", gen_fault::parts_per_builtin());
            0
        }
        "replay" => match args.get(2) {
            Some(p) => do_replay(p),
            None => 2,
        },
        "batch" => {
            let profile = arg_val(&args, "--profile").unwrap_or("alias".into());
            let seed: u64 = arg_val(&args, "--seed").and_then(|s| s.parse().ok()).unwrap_or(1);
            let runs: u64 = arg_val(&args, "--runs").and_then(|s| s.parse().ok()).unwrap_or(1000);
            let threads: usize = arg_val(&args, "--threads").and_then(|s| s.parse().ok()).unwrap_or(16);
            let cfg = BatchCfg {
                hang_report: None,
                only_mod: arg_val(&args, "--only-mod").map(|s| {
                    let mut it = s.split('/');
                    (it.next().unwrap().parse().unwrap(), it.next().unwrap().parse().unwrap())
                }),
                profile,
                base_seed: seed,
                runs,
                threads,
                wall_cap_s: arg_val(&args, "--cap").and_then(|s| s.parse().ok()).unwrap_or(1e9),
                log_dir: arg_val(&args, "--logdir"),
            };
            let (agg, wall, capped) = run_batch(&cfg);
            println!(
                "runs={} completed={} inconclusive={} violations={} stmts={} ticks={} wall={:.2}s capped={}",
                agg.runs,
                agg.completed,
                agg.inconclusive,
                agg.violations.len(),
                agg.stmts,
                agg.ticks,
                wall,
                capped
            );
            println!(
                "t_gen={:.2}s t_exec={:.2}s (thread-seconds); slowest run: gen {:.2}s exec {:.2}s index {}",
                agg.t_gen, agg.t_exec, agg.slowest.0, agg.slowest.1, agg.slowest.2
            );
            println!("inconclusive reasons: {:?}", agg.inconclusive_reasons);
            println!("kinds: {:?}", agg.kinds);
            println!("probes: {:?}", agg.probes);
            println!(
                "distinct scripts={} nontrivial={} states={}",
                agg.script_hashes.len(),
                agg.nontrivial_hashes.len(),
                agg.state_hashes.len()
            );
            let mut by_kind: BTreeMap<String, u64> = BTreeMap::new();
            for (_, v, _) in agg.violations.iter() {
                *by_kind.entry(format!("{:?}", v.kind)).or_insert(0) += 1;
            }
            println!("violations by kind: {:?}", by_kind);
            if args.iter().any(|a| a == "--uniq") {
                let mut uniq: BTreeMap<String, (u64, String)> = BTreeMap::new();
                for (_, v, _) in agg.violations.iter() {
                    let key = format!("{:?} | {}", v.kind, v.observed);
                    let e = uniq.entry(key).or_insert((0, v.source.clone()));
                    e.0 += 1;
                }
                for (k, (n, src)) in uniq.iter() {
                    println!("{:6}x {} | e.g. {}", n, k, src);
                }
            }
            let show: usize = arg_val(&args, "--show").and_then(|s| s.parse().ok()).unwrap_or(3);
            let do_min = args.iter().any(|a| a == "--min");
            for (i, v, s) in agg.violations.iter().take(show) {
                let (s2, v2) = if do_min { crate::min::minimise(s, v, 3000) } else { (s.clone(), v.clone()) };
                println!("--- violation at run {} stmt {} kind {:?}", i, v2.stmt_index, v2.kind);
                for (j, l) in rendered(&s2).iter().enumerate() {
                    if j <= v2.stmt_index {
                        println!("   {}", l);
                    }
                }
                println!("   cfg: {:?}", s2.cfg);
                println!("   expected: {}", v2.expected);
                println!("   observed: {}", v2.observed);
            }
            if agg.violations.is_empty() {
                0
            } else {
                1
            }
        }
        _ => {
            eprintln!("usage: nsim check --property ID [--tier quick|thorough] | replay FILE | batch --profile P --seed S --runs N");
            2
        }
    }
}
