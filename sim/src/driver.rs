// Batch driver: seeded search over scripts and fault plans, sharded over OS threads (each run is
// thread-confined; results are keyed by run index, so the worker count changes nothing).

use crate::gen_alias;
use crate::rng::{mix3, tag};
use crate::run::*;
use serde::{Deserialize, Serialize};
use serde_json::json;
use std::collections::{BTreeMap, BTreeSet};
use std::sync::atomic::{AtomicBool, AtomicU64, Ordering};
use std::sync::Mutex;
use std::time::Instant;

pub struct Generated {
    pub script: Script,
    pub kinds: Vec<String>,
    pub nontrivial: bool,
}

pub fn generate(profile: &str, seed: u64, index: u64) -> Generated {
    // even indices: fault-free configuration; odd: fault-injecting -- separate sub-batches so that a
    // relaxation can never hide an ordinary bug
    let fault_free = index % 2 == 0;
    match profile {
        "alias" => {
            let o = gen_alias::generate(seed, fault_free);
            Generated {
                script: o.script,
                kinds: o.kinds,
                nontrivial: o.nontrivial,
            }
        }
        p => panic!("unknown profile {}", p),
    }
}

#[derive(Clone, Debug, Serialize, Deserialize)]
pub struct Replay {
    pub property: String,
    pub profile: String,
    pub base_seed: u64,
    pub run_index: u64,
    pub violation: Violation,
    pub script: Script,
    pub rendered: Vec<String>,
    pub minimised: bool,
}

#[derive(Default)]
pub struct Agg {
    pub runs: u64,
    pub completed: u64,
    pub inconclusive: u64,
    pub inconclusive_reasons: BTreeMap<String, u64>,
    pub stmts: u64,
    pub ticks: u64,
    pub raised: u64,
    pub values: u64,
    pub cancelled: u64,
    pub short_writes: u64,
    pub eintr: u64,
    pub refused: u64,
    pub probes: BTreeMap<String, u64>,
    pub kinds: BTreeMap<String, u64>,
    pub state_hashes: BTreeSet<u64>,
    pub script_hashes: BTreeSet<u64>,
    pub nontrivial_hashes: BTreeSet<u64>,
    pub hash_modes: BTreeMap<String, u64>,
    pub violations: Vec<(u64, Violation, Script)>,
    pub samples: Vec<serde_json::Value>,
    pub t_gen: f64,
    pub t_exec: f64,
}

fn hash_str(s: &str) -> u64 {
    let mut h: u64 = 0xcbf2_9ce4_8422_2325;
    for b in s.bytes() {
        h = (h ^ b as u64).wrapping_mul(0x0000_0100_0000_01b3);
    }
    h
}

pub fn rendered(script: &Script) -> Vec<String> {
    script.stmts.iter().map(|s| crate::ir::render_top(&s.ex)).collect()
}

pub struct BatchCfg {
    pub profile: String,
    pub base_seed: u64,
    pub runs: u64,
    pub threads: usize,
    pub wall_cap_s: f64,
    pub log_dir: Option<String>,
}

pub fn run_batch(cfg: &BatchCfg) -> (Agg, f64, bool) {
    let start = Instant::now();
    let next = AtomicU64::new(0);
    let stop = AtomicBool::new(false);
    let capped = AtomicBool::new(false);
    let agg = Mutex::new(Agg::default());
    std::thread::scope(|s| {
        for _ in 0..cfg.threads {
            let h = std::thread::Builder::new().stack_size(256 << 20).spawn_scoped(s, || {
                install_panic_hook();
                let mut local = Agg::default();
                loop {
                    if stop.load(Ordering::Relaxed) {
                        break;
                    }
                    let i = next.fetch_add(1, Ordering::Relaxed);
                    if i >= cfg.runs {
                        break;
                    }
                    if i % 256 == 0 && start.elapsed().as_secs_f64() > cfg.wall_cap_s {
                        // the cap only stops launching runs; no verdict depends on it
                        capped.store(true, Ordering::Relaxed);
                        stop.store(true, Ordering::Relaxed);
                        break;
                    }
                    let seed = mix3(cfg.base_seed, tag(&cfg.profile), i);
                    let t0 = Instant::now();
                    let g = generate(&cfg.profile, seed, i);
                    let t1 = Instant::now();
                    let res = execute(&g.script);
                    let t2 = Instant::now();
                    local.t_gen += (t1 - t0).as_secs_f64();
                    local.t_exec += (t2 - t1).as_secs_f64();
                    local.runs += 1;
                    let rend = rendered(&g.script);
                    let sh = hash_str(&rend.join("\n"));
                    local.script_hashes.insert(sh);
                    if g.nontrivial {
                        local.nontrivial_hashes.insert(sh);
                    }
                    for k in g.kinds.iter() {
                        *local.kinds.entry(k.clone()).or_insert(0) += 1;
                    }
                    let hm = format!(
                        "key_hash_mode={} shared={}",
                        g.script.cfg.key_hash_mode, g.script.cfg.hash_shared
                    );
                    *local.hash_modes.entry(hm).or_insert(0) += 1;
                    local.stmts += res.stats.stmts_run;
                    local.ticks += res.stats.ticks;
                    local.raised += res.stats.raised;
                    local.values += res.stats.values;
                    local.cancelled += res.stats.cancelled;
                    if let Some(w) = &res.stats.writer {
                        local.short_writes += w.short_writes;
                        local.eintr += w.eintr;
                        local.refused += w.refused;
                    }
                    for (k, v) in res.stats.probes.iter() {
                        *local.probes.entry(k.clone()).or_insert(0) += v;
                    }
                    for h in res.stats.state_hashes.iter() {
                        if local.state_hashes.len() < 2_000_000 {
                            local.state_hashes.insert(*h);
                        }
                    }
                    if let Some(dir) = &cfg.log_dir {
                        let path = format!("{}/{:08}.log", dir, i);
                        let mut text = format!("seed={} index={}\n", seed, i);
                        for l in res.log.iter() {
                            text.push_str(l);
                            text.push('\n');
                        }
                        text.push_str(&format!("end={}\n", match &res.end {
                            RunEnd::Completed => "completed".to_string(),
                            RunEnd::Inconclusive(m) => format!("inconclusive: {}", m),
                            RunEnd::Violation(v) => format!("violation: {:?}", v.kind),
                        }));
                        std::fs::write(path, text).unwrap();
                    }
                    match res.end {
                        RunEnd::Completed => {
                            local.completed += 1;
                            if local.samples.len() < 2 && g.nontrivial {
                                local.samples.push(json!({"run_index": i, "seed": seed, "script": rend}));
                            }
                        }
                        RunEnd::Inconclusive(m) => {
                            local.inconclusive += 1;
                            let key: String = m.chars().take(60).collect();
                            *local.inconclusive_reasons.entry(key).or_insert(0) += 1;
                        }
                        RunEnd::Violation(v) => {
                            local.violations.push((i, v, g.script.clone()));
                        }
                    }
                }
                let mut a = agg.lock().unwrap();
                merge(&mut a, local);
            });
            h.unwrap();
        }
    });
    let mut a = agg.into_inner().unwrap();
    a.violations.sort_by_key(|v| v.0);
    (a, start.elapsed().as_secs_f64(), capped.load(Ordering::Relaxed))
}

fn merge(a: &mut Agg, b: Agg) {
    a.runs += b.runs;
    a.t_gen += b.t_gen;
    a.t_exec += b.t_exec;
    a.completed += b.completed;
    a.inconclusive += b.inconclusive;
    a.stmts += b.stmts;
    a.ticks += b.ticks;
    a.raised += b.raised;
    a.values += b.values;
    a.cancelled += b.cancelled;
    a.short_writes += b.short_writes;
    a.eintr += b.eintr;
    a.refused += b.refused;
    for (k, v) in b.inconclusive_reasons {
        *a.inconclusive_reasons.entry(k).or_insert(0) += v;
    }
    for (k, v) in b.probes {
        *a.probes.entry(k).or_insert(0) += v;
    }
    for (k, v) in b.kinds {
        *a.kinds.entry(k).or_insert(0) += v;
    }
    for (k, v) in b.hash_modes {
        *a.hash_modes.entry(k).or_insert(0) += v;
    }
    a.state_hashes.extend(b.state_hashes);
    a.script_hashes.extend(b.script_hashes);
    a.nontrivial_hashes.extend(b.nontrivial_hashes);
    a.violations.extend(b.violations);
    if a.samples.len() < 4 {
        a.samples.extend(b.samples);
        a.samples.truncate(4);
    }
}

fn arg_val(args: &[String], name: &str) -> Option<String> {
    args.iter().position(|a| a == name).and_then(|i| args.get(i + 1).cloned())
}

pub fn main(args: Vec<String>) -> i32 {
    install_panic_hook();
    let cmd = args.get(1).map(|s| s.as_str()).unwrap_or("");
    match cmd {
        "batch" => {
            let profile = arg_val(&args, "--profile").unwrap_or("alias".into());
            let seed: u64 = arg_val(&args, "--seed").and_then(|s| s.parse().ok()).unwrap_or(1);
            let runs: u64 = arg_val(&args, "--runs").and_then(|s| s.parse().ok()).unwrap_or(1000);
            let threads: usize = arg_val(&args, "--threads").and_then(|s| s.parse().ok()).unwrap_or(16);
            let cfg = BatchCfg {
                profile,
                base_seed: seed,
                runs,
                threads,
                wall_cap_s: arg_val(&args, "--cap").and_then(|s| s.parse().ok()).unwrap_or(1e9),
                log_dir: arg_val(&args, "--logdir"),
            };
            let (agg, wall, capped) = run_batch(&cfg);
            println!(
                "runs={} completed={} inconclusive={} violations={} stmts={} ticks={} wall={:.2}s capped={}",
                agg.runs,
                agg.completed,
                agg.inconclusive,
                agg.violations.len(),
                agg.stmts,
                agg.ticks,
                wall,
                capped
            );
            println!("t_gen={:.2}s t_exec={:.2}s (thread-seconds)", agg.t_gen, agg.t_exec);
            println!("inconclusive reasons: {:?}", agg.inconclusive_reasons);
            println!("kinds: {:?}", agg.kinds);
            println!("probes: {:?}", agg.probes);
            println!(
                "distinct scripts={} nontrivial={} states={}",
                agg.script_hashes.len(),
                agg.nontrivial_hashes.len(),
                agg.state_hashes.len()
            );
            let mut by_kind: BTreeMap<String, u64> = BTreeMap::new();
            for (_, v, _) in agg.violations.iter() {
                *by_kind.entry(format!("{:?}", v.kind)).or_insert(0) += 1;
            }
            println!("violations by kind: {:?}", by_kind);
            for (i, v, s) in agg.violations.iter().take(arg_val(&args, "--show").and_then(|s| s.parse().ok()).unwrap_or(3)) {
                println!("--- violation at run {} stmt {} kind {:?}", i, v.stmt_index, v.kind);
                for (j, l) in rendered(s).iter().enumerate() {
                    if j <= v.stmt_index {
                        println!("   {}", l);
                    }
                }
                println!("   expected: {}", v.expected);
                println!("   observed: {}", v.observed);
            }
            if agg.violations.is_empty() {
                0
            } else {
                1
            }
        }
        _ => {
            eprintln!("usage: nsim batch --profile P --seed S --runs N [--threads T]");
            2
        }
    }
}
