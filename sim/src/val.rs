// Reference-model values. A value is an owned tree: copying is a deep clone, so value semantics
// hold by construction (there is no sharing to get wrong). Variables live in scopes (cells shared
// by closures) -- that is language semantics, not aliasing of values.

use crate::ir::{Ex, Lv};
use num::bigint::BigInt;
use num::rational::BigRational;
use num::{One, Signed, ToPrimitive, Zero};
use std::cell::RefCell;
use std::rc::Rc;

#[derive(Clone, Debug)]
pub enum V {
    Null,
    Int(BigInt),
    Rat(BigRational),
    Float(f64),
    Cx(f64, f64),
    Str(String),
    Bytes(Vec<u8>),
    Vector(Vec<V>), // numbers only
    List(Vec<V>),
    Dict(Dict),
    Inst(usize, Vec<V>), // struct index in model.structs
    Func(Rc<FuncV>),
    Stream(StreamV),
}

#[derive(Clone, Debug)]
pub struct Dict {
    // insertion order; keys unique under key equality; first spelling of a key is kept
    pub entries: Vec<(V, V)>,
    pub default: Option<Box<V>>,
    /// two equal keys with different spellings (1 and 1.0) have met in this dictionary: which
    /// spelling the entry keeps is not determined by the map model, so wherever key spellings
    /// would flow out as values (`keys`, `items`, iteration) the model declines
    pub amb: bool,
}

#[derive(Debug)]
pub enum FuncV {
    Builtin(String),
    Closure {
        params: Vec<Lv>,
        body: Ex,
        env: ScopeRef,
    },
    Type(Ty),
    Field(usize, usize), // struct index, field index
    // a frozen closure: free variables already substituted inside `body`
    Memo(Rc<FuncV>, RefCell<Vec<(Vec<V>, V)>>),
    // one-argument partial applications produced by `f(b)` style calls are not modelled
}

#[derive(Clone, Debug)]
pub enum Ty {
    Any,
    Null,
    Int,
    Rational,
    Float,
    Complex,
    Number,
    Str,
    List,
    Dict,
    Vector,
    Bytes,
    Stream,
    Func,
    Type,
    Struct(usize),
    StructInstance,
    Satisfying(Rc<FuncV>),
}

#[derive(Clone, Debug)]
pub enum StreamV {
    // the remaining elements of a finite stream
    Fin(Vec<V>),
    // infinite streams by their defining recurrence
    Iota(BigInt),
    Repeat(Box<V>),
    Cycle(Vec<V>, usize),
    // lazily mapped / filtered finite or infinite stream; callbacks are pure by construction
    Map(Box<StreamV>, Rc<FuncV>),
    Filter(Box<StreamV>, Rc<FuncV>),
    Iterate(Box<V>, Rc<FuncV>),
    // lazy zip: ends with its shortest member; elements are lists, or f applied to the members' elements
    Zip(Vec<StreamV>, Option<Rc<FuncV>>),
}

pub struct Scope {
    pub vars: Vec<(String, Ty, V)>,
    pub parent: Option<ScopeRef>,
}
impl std::fmt::Debug for Scope {
    fn fmt(&self, f: &mut std::fmt::Formatter) -> std::fmt::Result {
        write!(f, "Scope({} vars)", self.vars.len())
    }
}
pub type ScopeRef = Rc<RefCell<Scope>>;

impl Dict {
    pub fn new() -> Dict {
        Dict {
            entries: Vec::new(),
            default: None,
            amb: false,
        }
    }
    pub fn find(&self, k: &V) -> Option<usize> {
        self.entries.iter().position(|(kk, _)| key_eq(kk, k))
    }
    /// `find` on a path that writes: notes when the spelling of `k` differs from the stored one
    pub fn find_w(&mut self, k: &V) -> Option<usize> {
        let j = self.find(k);
        if let Some(j) = j {
            if format!("{:?}", self.entries[j].0) != format!("{:?}", k) {
                self.amb = true;
            }
        }
        j
    }
    pub fn get(&self, k: &V) -> Option<&V> {
        self.find(k).map(|i| &self.entries[i].1)
    }
    /// std `insert`: keeps the old key spelling, replaces the value
    pub fn insert(&mut self, k: V, v: V) {
        match self.find_w(&k) {
            Some(i) => self.entries[i].1 = v,
            None => self.entries.push((k, v)),
        }
    }
    pub fn remove(&mut self, k: &V) -> Option<V> {
        self.find(k).map(|i| self.entries.remove(i).1)
    }
}

// ---------------------------------------------------------------------------------------------
// numbers

/// a real component: exact rational, or one of the three non-finite floats
#[derive(Clone, Debug, PartialEq)]
pub enum Real {
    Exact(BigRational),
    PosInf,
    NegInf,
    NaN,
}

pub fn float_real(f: f64) -> Real {
    if f.is_nan() {
        Real::NaN
    } else if f.is_infinite() {
        if f > 0.0 {
            Real::PosInf
        } else {
            Real::NegInf
        }
    } else {
        Real::Exact(BigRational::from_float(f).unwrap())
    }
}

/// (re, im) by exact value
pub fn num_parts(v: &V) -> Option<(Real, Real)> {
    let zero = Real::Exact(BigRational::zero());
    match v {
        V::Int(n) => Some((Real::Exact(BigRational::from(n.clone())), zero)),
        V::Rat(r) => Some((Real::Exact(r.clone()), zero)),
        V::Float(f) => Some((float_real(*f), zero)),
        V::Cx(re, im) => Some((float_real(*re), float_real(*im))),
        _ => None,
    }
}

pub fn is_num(v: &V) -> bool {
    matches!(v, V::Int(_) | V::Rat(_) | V::Float(_) | V::Cx(..))
}

pub fn num_is_nan(v: &V) -> bool {
    match v {
        V::Float(f) => f.is_nan(),
        V::Cx(a, b) => a.is_nan() || b.is_nan(),
        _ => false,
    }
}

fn real_eq(a: &Real, b: &Real) -> bool {
    match (a, b) {
        (Real::NaN, _) | (_, Real::NaN) => false,
        _ => a == b,
    }
}

/// `==` on numbers: by exact mathematical value, NaN unequal to everything
pub fn num_eq(a: &V, b: &V) -> bool {
    match (num_parts(a), num_parts(b)) {
        (Some((ar, ai)), Some((br, bi))) => real_eq(&ar, &br) && real_eq(&ai, &bi),
        _ => false,
    }
}

pub fn real_cmp(a: &Real, b: &Real) -> Option<std::cmp::Ordering> {
    use std::cmp::Ordering::*;
    match (a, b) {
        (Real::NaN, _) | (_, Real::NaN) => None,
        (Real::Exact(x), Real::Exact(y)) => Some(x.cmp(y)),
        (Real::PosInf, Real::PosInf) | (Real::NegInf, Real::NegInf) => Some(Equal),
        (Real::PosInf, _) => Some(Greater),
        (_, Real::PosInf) => Some(Less),
        (Real::NegInf, _) => Some(Less),
        (_, Real::NegInf) => Some(Greater),
    }
}

// ---------------------------------------------------------------------------------------------
// equality

/// the language's `==` (structs compare by type and fields; functions and streams are never equal)
pub fn veq(a: &V, b: &V) -> bool {
    match (a, b) {
        (V::Null, V::Null) => true,
        (x, y) if is_num(x) && is_num(y) => num_eq(x, y),
        (V::Str(x), V::Str(y)) => x == y,
        (V::Bytes(x), V::Bytes(y)) => x == y,
        (V::Vector(x), V::Vector(y)) | (V::List(x), V::List(y)) => {
            x.len() == y.len() && x.iter().zip(y.iter()).all(|(p, q)| veq(p, q))
        }
        (V::Dict(x), V::Dict(y)) => {
            // defaults are ignored
            x.entries.len() == y.entries.len()
                && x.entries.iter().all(|(k, v)| match y.get(k) {
                    Some(vv) => veq(v, vv),
                    None => false,
                })
        }
        (V::Inst(s, x), V::Inst(t, y)) => {
            s == t && x.len() == y.len() && x.iter().zip(y.iter()).all(|(p, q)| veq(p, q))
        }
        _ => false,
    }
}

/// key equality: `==` with NaN equal to itself (only called on valid keys)
pub fn key_eq(a: &V, b: &V) -> bool {
    match (a, b) {
        (V::Null, V::Null) => true,
        (x, y) if is_num(x) && is_num(y) => num_eq(x, y) || (num_is_nan(x) && num_is_nan(y)),
        (V::Str(x), V::Str(y)) => x == y,
        (V::Bytes(x), V::Bytes(y)) => x == y,
        (V::Vector(x), V::Vector(y)) | (V::List(x), V::List(y)) => {
            x.len() == y.len() && x.iter().zip(y.iter()).all(|(p, q)| key_eq(p, q))
        }
        (V::Dict(x), V::Dict(y)) => {
            x.entries.len() == y.entries.len()
                && x.entries.iter().all(|(k, v)| match y.get(k) {
                    Some(vv) => key_eq(v, vv),
                    None => false,
                })
        }
        _ => false,
    }
}

/// Some(()) if usable as a dictionary key (streams are forced to lists by the caller)
pub fn valid_key(v: &V) -> bool {
    match v {
        V::Null | V::Int(_) | V::Rat(_) | V::Float(_) | V::Cx(..) | V::Str(_) | V::Bytes(_) => true,
        V::Vector(_) => true,
        V::List(xs) => xs.iter().all(valid_key),
        V::Dict(d) => d.entries.iter().all(|(_, v)| valid_key(v)),
        V::Inst(..) | V::Func(_) | V::Stream(_) => false,
    }
}

pub fn truthy(v: &V) -> Option<bool> {
    Some(match v {
        V::Null => false,
        V::Int(n) => !n.is_zero(),
        V::Rat(r) => !r.is_zero(),
        V::Float(f) => *f != 0.0,
        V::Cx(a, b) => *a != 0.0 || *b != 0.0,
        V::Str(s) => !s.is_empty(),
        V::Bytes(b) => !b.is_empty(),
        V::Vector(x) | V::List(x) => !x.is_empty(),
        V::Dict(d) => !d.entries.is_empty(),
        V::Inst(..) | V::Func(_) => true,
        V::Stream(s) => match s {
            StreamV::Fin(xs) => !xs.is_empty(),
            StreamV::Iota(_) | StreamV::Repeat(_) | StreamV::Iterate(..) => true,
            StreamV::Cycle(..) => true,
            StreamV::Map(..) | StreamV::Filter(..) | StreamV::Zip(..) => return None,
        },
    })
}

// ---------------------------------------------------------------------------------------------
// canonical text (the common currency between the model and the observed implementation state)

fn canon_f64(f: f64, out: &mut String) {
    if f.is_nan() {
        out.push_str("NaN");
    } else {
        out.push_str(&format!("{:016x}", f.to_bits()));
    }
}

fn canon_real_class(r: &Real, out: &mut String) {
    match r {
        Real::NaN => out.push_str("NaN"),
        Real::PosInf => out.push_str("+inf"),
        Real::NegInf => out.push_str("-inf"),
        Real::Exact(q) => {
            out.push_str(&q.numer().to_string());
            out.push('/');
            out.push_str(&q.denom().to_string());
        }
    }
}

/// canonical text of a dictionary key *up to key equality*: numbers by exact value whatever their
/// level or representation (1, 1.0, 2/2, 1+0i; 0.0 and -0.0; every NaN), containers element-wise.
/// Which of several equal spellings a dictionary keeps is not part of the map model.
pub fn canon_key(v: &V, names: &[String], out: &mut String) {
    match v {
        x if is_num(x) => {
            out.push('n');
            if num_is_nan(x) {
                out.push_str("NaN");
                return;
            }
            let (re, im) = num_parts(x).unwrap();
            canon_real_class(&re, out);
            if im != Real::Exact(BigRational::zero()) {
                out.push('|');
                canon_real_class(&im, out);
            }
        }
        V::Vector(xs) | V::List(xs) => {
            out.push_str(if matches!(v, V::Vector(_)) { "v[" } else { "[" });
            for (i, x) in xs.iter().enumerate() {
                if i > 0 {
                    out.push(',');
                }
                canon_key(x, names, out);
            }
            out.push(']');
        }
        V::Dict(d) => {
            // dictionaries compare (and hash) by their entries, defaults ignored
            let mut items: Vec<(String, String)> = Vec::new();
            for (k, v) in d.entries.iter() {
                let mut ks = String::new();
                canon_key(k, names, &mut ks);
                let mut vs = String::new();
                canon_key(v, names, &mut vs);
                items.push((ks, vs));
            }
            items.sort();
            out.push('{');
            for (i, (k, v)) in items.iter().enumerate() {
                if i > 0 {
                    out.push(',');
                }
                out.push_str(k);
                out.push(':');
                out.push_str(v);
            }
            out.push('}');
        }
        other => canon_into(other, names, out),
    }
}

pub type StreamCanon<'a> = &'a mut dyn FnMut(&StreamV, &mut String);

pub fn canon_into(v: &V, names: &[String], out: &mut String) {
    canon_with(v, names, out, &mut |_s, o| o.push('S'))
}

pub fn canon_with(v: &V, names: &[String], out: &mut String, sc: StreamCanon) {
    match v {
        V::Null => out.push('N'),
        V::Int(n) => {
            out.push('i');
            out.push_str(&n.to_string());
        }
        V::Rat(r) => {
            out.push('r');
            out.push_str(&r.numer().to_string());
            out.push('/');
            out.push_str(&r.denom().to_string());
        }
        V::Float(f) => {
            out.push('f');
            canon_f64(*f, out);
        }
        V::Cx(a, b) => {
            out.push('c');
            canon_f64(*a, out);
            out.push(',');
            canon_f64(*b, out);
        }
        V::Str(s) => {
            out.push('s');
            out.push_str(&format!("{:?}", s));
        }
        V::Bytes(b) => {
            out.push('b');
            out.push_str(&format!("{:?}", b));
        }
        V::Vector(xs) => {
            out.push_str("v[");
            for (i, x) in xs.iter().enumerate() {
                if i > 0 {
                    out.push(',');
                }
                canon_with(x, names, out, sc);
            }
            out.push(']');
        }
        V::List(xs) => {
            out.push('[');
            for (i, x) in xs.iter().enumerate() {
                if i > 0 {
                    out.push(',');
                }
                canon_with(x, names, out, sc);
            }
            out.push(']');
        }
        V::Dict(d) => {
            let mut items: Vec<(String, String)> = Vec::new();
            for (k, v) in d.entries.iter() {
                let mut ks = String::new();
                canon_key(k, names, &mut ks);
                let mut vs = String::new();
                canon_with(v, names, &mut vs, sc);
                items.push((ks, vs));
            }
            items.sort();
            out.push('{');
            for (i, (k, v)) in items.iter().enumerate() {
                if i > 0 {
                    out.push(',');
                }
                out.push_str(k);
                out.push(':');
                out.push_str(v);
            }
            if let Some(dv) = &d.default {
                out.push_str("|d=");
                canon_with(dv, names, out, sc);
            }
            out.push('}');
        }
        V::Inst(s, xs) => {
            out.push('I');
            out.push_str(names.get(*s).map(|s| s.as_str()).unwrap_or("?"));
            out.push('(');
            for (i, x) in xs.iter().enumerate() {
                if i > 0 {
                    out.push(',');
                }
                canon_with(x, names, out, sc);
            }
            out.push(')');
        }
        V::Func(_) => out.push('F'),
        V::Stream(s) => sc(s, out),
    }
}

pub fn canon(v: &V, names: &[String]) -> String {
    let mut s = String::new();
    canon_into(v, names, &mut s);
    s
}

// ---------------------------------------------------------------------------------------------
// display, as `print`/`str`/`$` render values. None = the model does not claim to know the
// exact bytes (the generator never prints such values).

fn display_num(v: &V) -> Option<String> {
    match v {
        V::Int(n) => Some(n.to_string()),
        V::Rat(r) => Some(if r.denom().is_one() {
            r.numer().to_string()
        } else {
            format!("{}/{}", r.numer(), r.denom())
        }),
        _ => None,
    }
}

pub fn display(v: &V, repr: bool) -> Option<String> {
    match v {
        V::Null => Some("null".to_string()),
        V::Int(_) => display_num(v),
        V::Rat(_) if !repr => display_num(v),
        V::Str(s) => Some(if repr { format!("{:?}", s) } else { s.clone() }),
        V::List(xs) => {
            let mut out = String::from("[");
            for (i, x) in xs.iter().enumerate() {
                if i > 0 {
                    out.push_str(", ");
                }
                out.push_str(&display(x, true)?);
            }
            out.push(']');
            Some(out)
        }
        _ => None,
    }
}

pub fn vint(n: i64) -> V {
    V::Int(BigInt::from(n))
}
pub fn boolv(b: bool) -> V {
    vint(if b { 1 } else { 0 })
}
pub fn as_isize(v: &V) -> Option<isize> {
    match v {
        V::Int(n) => n.to_isize(),
        _ => None,
    }
}
pub fn is_neg(n: &BigInt) -> bool {
    n.is_negative()
}
