mod alloc;
mod builtins;
mod freevars;
mod gen_alias;
mod gen_dict;
mod gen_io;
mod gen_fault;
mod gen_flow;
mod gen_freeze;
mod gen_stream;
mod gen_typed;
mod gen_common;
mod ir;
mod model;
mod obs;
mod region;
mod rng;
mod run;
mod seams;
mod streams_model;
mod val;
mod driver;
mod min;

#[global_allocator]
static ALLOC: seams::CountingAlloc = seams::CountingAlloc;

extern "C" {
    fn mallopt(param: i32, value: i32) -> i32;
}

fn main() {
    // glibc: keep freed memory in the per-thread arenas instead of trimming and re-growing them
    // (thousands of mprotect calls per second serialise the worker threads on the mmap lock)
    unsafe {
        mallopt(-2, 16 << 20); // M_TOP_PAD
        mallopt(-1, 1 << 30); // M_TRIM_THRESHOLD
        // blocks up to 32 MB come from the arenas too: a hidden copy of a 100 KB row per statement
        // (what C02 looks for) would otherwise be an mmap/munmap pair per statement on 16 threads
        mallopt(-3, 32 << 20); // M_MMAP_THRESHOLD
    }
    let args: Vec<String> = std::env::args().collect();
    std::process::exit(driver::main(args));
}
