// Reference model: an independent interpreter of the NL-core IR following the documented rules.
// Copying a value is a deep clone. Anything the model does not claim to know ends the run as
// "inconclusive" (Ctl::Unknown) -- never as a violation.

use crate::ir::*;
use crate::val::*;
use num::bigint::BigInt;
use num::rational::BigRational;
use num::{Integer, One, Signed, ToPrimitive, Zero};
use std::cell::RefCell;
use std::collections::BTreeMap;
use std::rc::Rc;

#[derive(Debug)]
pub enum Ctl {
    Throw(V),
    Break(usize, Option<V>),
    Continue(usize),
    Return(V),
    /// the model declines to predict (generator went outside the modelled fragment)
    Unknown(String),
    /// model step budget exhausted
    Fuel,
}
pub type R<T> = Result<T, Ctl>;

fn throw<T>(msg: &str) -> R<T> {
    Err(Ctl::Throw(V::Str(msg.to_string())))
}
thread_local! {
    /// set when the model raised only because HEAD does not support an operation on this kind of
    /// value (pop on a vector, a nested write under an absent key of a defaulted dict, a
    /// non-integer index, ...): an implementation may legitimately do more there, so a statement
    /// that went through such a raise is not judged when it disagrees (see run.rs)
    pub static UNSUPPORTED_RAISED: std::cell::Cell<bool> = const { std::cell::Cell::new(false) };
}

pub fn throw_unsupported<T>(msg: &str) -> R<T> {
    UNSUPPORTED_RAISED.with(|c| c.set(true));
    throw(msg)
}

fn unknown<T>(msg: &str) -> R<T> {
    Err(Ctl::Unknown(msg.to_string()))
}

#[derive(Clone, Debug)]
pub struct StructDef {
    pub name: String,
    pub fields: Vec<(String, Option<V>)>,
}

pub enum ELv {
    Underscore,
    Ident(String, Vec<EIx>),
    Annot(Box<ELv>, Option<V>),
    Default(Box<ELv>, Ex),
    Seq(Vec<ELv>, bool),
    Splat(Box<ELv>),
    Or(Box<ELv>, Box<ELv>),
    And(Box<ELv>, Box<ELv>),
    Lit(V),
    DStruct(usize, Vec<ELv>),
    DBuiltin(String, Vec<ELv>),
}
pub enum EIx {
    Index(V),
    Slice(Option<V>, Option<V>),
}

pub struct Model {
    pub top: ScopeRef,
    pub out: Vec<u8>,
    /// bytes the output sink will still accept (None = unlimited)
    pub out_budget: Option<usize>,
    pub structs: Vec<StructDef>,
    pub steps: u64,
    pub step_limit: u64,
    pub allow_redecl: bool,
    pub probes: BTreeMap<&'static str, u64>,
    pub depth: usize,
    /// input seam: the byte script, how far it has been consumed, the pending one-shot read error
    pub input: Vec<u8>,
    pub in_pos: usize,
    pub in_err_at: Option<usize>,
    /// variables whose slot a FAILED operator-assignment dropped (left null by HEAD; another
    /// implementation may restore the old value): reading one of them later in the same statement
    /// makes the model decline
    pub poisoned: Vec<String>,
}

pub const BUILTINS: &[&str] = &[
    "+", "-", "*", "//", "%", "%%", "==", "!=", "<", "<=", ">", ">=", "not", "len", "append", "++",
    ".+", "+.", "$", "||", "|.", "-.", "discard", "&&", "--", "|..", "insert", "max", "min", "keys",
    "values", "items", "sort", "in", "not_in", "!?", "!!", "reverse", "first", "last", "id", "print",
    "echo", "write", "is", "set", "V", "B", "L", "throw'", "satisfying", "map", "filter", "each",
    "fold", "sum", "unique", "frequencies", "count_distinct", "memoize", "to", "til", "iota", "repeat",
    "cycle", "take", "drop", "second", "third", "tail", "butlast", "enumerate", "zip", "flatten", "any",
    "all", "count", "then", ".", "apply", "const", "even", "odd", "abs", "group_all", "contains",
    "permutations", "combinations", "subsequences", "^^", "iterate", "lazy_map", "lazy_filter", "**",
    ".*", "*.", "..", "=>", "join", "<=>", "only", "index", "find", "locate", "uncons", "unsnoc",
    "input", "read", "read_bytes", "interact", "interact_lines", "||+", "classify", "lazy_zip", "/",
];

pub const TYPES: &[(&str, fn() -> Ty)] = &[
    ("nulltype", || Ty::Null),
    ("int", || Ty::Int),
    ("rational", || Ty::Rational),
    ("float", || Ty::Float),
    ("complex", || Ty::Complex),
    ("number", || Ty::Number),
    ("str", || Ty::Str),
    ("list", || Ty::List),
    ("dict", || Ty::Dict),
    ("vector", || Ty::Vector),
    ("bytes", || Ty::Bytes),
    ("stream", || Ty::Stream),
    ("func", || Ty::Func),
    ("type", || Ty::Type),
    ("anything", || Ty::Any),
];

thread_local! {
    /// every scope created on this thread (weakly): a closure stored in a variable of the scope it
    /// captures is an Rc cycle; `release_scopes` breaks them when a session or generator is done
    static SCOPES: RefCell<Vec<std::rc::Weak<RefCell<Scope>>>> = RefCell::new(Vec::new());
}

pub fn new_scope(parent: Option<ScopeRef>) -> ScopeRef {
    let s = Rc::new(RefCell::new(Scope {
        vars: Vec::new(),
        parent,
    }));
    SCOPES.with(|v| v.borrow_mut().push(Rc::downgrade(&s)));
    s
}

pub fn release_scopes() {
    let scopes = SCOPES.with(|v| std::mem::take(&mut *v.borrow_mut()));
    for w in scopes {
        if let Some(s) = w.upgrade() {
            if let Ok(mut b) = s.try_borrow_mut() {
                b.vars.clear();
            }
        }
    }
}

fn builtin(name: &str) -> V {
    V::Func(Rc::new(FuncV::Builtin(name.to_string())))
}

impl Model {
    pub fn new(allow_redecl: bool) -> Model {
        let top = new_scope(None);
        {
            let mut t = top.borrow_mut();
            for b in BUILTINS {
                t.vars.push((b.to_string(), Ty::Any, builtin(b)));
            }
            for (n, t_) in TYPES {
                t.vars
                    .push((n.to_string(), Ty::Any, V::Func(Rc::new(FuncV::Type(t_())))));
            }
        }
        Model {
            top,
            out: Vec::new(),
            out_budget: None,
            structs: Vec::new(),
            steps: 0,
            step_limit: 200_000,
            allow_redecl,
            probes: BTreeMap::new(),
            depth: 0,
            input: Vec::new(),
            in_pos: 0,
            in_err_at: None,
            poisoned: Vec::new(),
        }
    }

    /// overwrite a user variable with a value observed in the implementation (fault relaxation)
    pub fn adopt_var(&mut self, name: &str, v: V) -> bool {
        Model::with_var(&self.top.clone(), name, &mut |_, slot| *slot = v.clone()).is_some()
    }

    pub fn adopt_or_declare(&mut self, name: &str, v: V) {
        if !self.adopt_var(name, v.clone()) {
            self.top.borrow_mut().vars.push((name.to_string(), Ty::Any, v));
        }
    }

    pub fn probe(&mut self, name: &'static str) {
        *self.probes.entry(name).or_insert(0) += 1;
    }

    pub fn struct_names(&self) -> Vec<String> {
        self.structs.iter().map(|s| s.name.clone()).collect()
    }

    fn tick(&mut self) -> R<()> {
        self.steps += 1;
        if self.steps > self.step_limit {
            Err(Ctl::Fuel)
        } else {
            Ok(())
        }
    }

    // -----------------------------------------------------------------------------------------
    // scopes

    pub fn lookup(scope: &ScopeRef, name: &str) -> Option<V> {
        let s = scope.borrow();
        for (n, _, v) in s.vars.iter() {
            if n == name {
                return Some(v.clone());
            }
        }
        match &s.parent {
            Some(p) => Model::lookup(p, name),
            None => None,
        }
    }

    /// run `f` on the nearest declaration of `name`; None if undeclared
    fn with_var<T>(
        scope: &ScopeRef,
        name: &str,
        f: &mut dyn FnMut(&Ty, &mut V) -> T,
    ) -> Option<T> {
        let mut s = scope.borrow_mut();
        for (n, ty, v) in s.vars.iter_mut() {
            if n == name {
                let ty = ty.clone();
                return Some(f(&ty, v));
            }
        }
        let parent = s.parent.clone();
        drop(s);
        match parent {
            Some(p) => Model::with_var(&p, name, f),
            None => None,
        }
    }

    fn declared_type(scope: &ScopeRef, name: &str) -> Option<Ty> {
        let s = scope.borrow();
        for (n, ty, _) in s.vars.iter() {
            if n == name {
                return Some(ty.clone());
            }
        }
        match &s.parent {
            Some(p) => Model::declared_type(p, name),
            None => None,
        }
    }

    fn insert_declare(&mut self, scope: &ScopeRef, name: &str, ty: Ty, val: V) -> R<()> {
        if !self.is_type(&ty, &val)? {
            return throw("declaring: type mismatch");
        }
        let is_top = Rc::ptr_eq(scope, &self.top);
        let mut s = scope.borrow_mut();
        if let Some(slot) = s.vars.iter_mut().find(|(n, _, _)| n == name) {
            if is_top && self.allow_redecl {
                slot.1 = ty;
                slot.2 = val;
                return Ok(());
            }
            return throw("declaring variable that already exists");
        }
        s.vars.push((name.to_string(), ty, val));
        Ok(())
    }

    // -----------------------------------------------------------------------------------------
    // types

    pub fn is_type(&mut self, ty: &Ty, v: &V) -> R<bool> {
        Ok(match (ty, v) {
            (Ty::Any, _) => true,
            (Ty::Null, V::Null) => true,
            (Ty::Int, V::Int(_)) => true,
            (Ty::Rational, V::Rat(_)) => true,
            (Ty::Float, V::Float(_)) => true,
            (Ty::Complex, V::Cx(..)) => true,
            (Ty::Number, x) if is_num(x) => true,
            (Ty::List, V::List(_)) => true,
            (Ty::Str, V::Str(_)) => true,
            (Ty::Dict, V::Dict(_)) => true,
            (Ty::Vector, V::Vector(_)) => true,
            (Ty::Bytes, V::Bytes(_)) => true,
            (Ty::Stream, V::Stream(_)) => true,
            (Ty::Func, V::Func(_)) => true,
            (Ty::Type, V::Func(f)) => matches!(&**f, FuncV::Type(_)),
            (Ty::Struct(s), V::Inst(t, _)) => s == t,
            (Ty::StructInstance, V::Inst(..)) => true,
            (Ty::Satisfying(f), x) => {
                let r = self.call_func(f, vec![x.clone()])?;
                self.truthy(&r)?
            }
            _ => false,
        })
    }

    fn to_type(&self, v: &V) -> R<Ty> {
        match v {
            V::Null => Ok(Ty::Null),
            V::Func(f) => match &**f {
                FuncV::Type(t) => Ok(t.clone()),
                _ => throw("can't convert to type"),
            },
            _ => throw("can't convert to type"),
        }
    }

    // -----------------------------------------------------------------------------------------
    // output

    fn emit(&mut self, text: &str) -> R<()> {
        let bytes = text.as_bytes();
        match self.out_budget {
            None => {
                self.out.extend_from_slice(bytes);
                Ok(())
            }
            Some(b) => {
                if bytes.len() <= b {
                    self.out.extend_from_slice(bytes);
                    self.out_budget = Some(b - bytes.len());
                    Ok(())
                } else {
                    self.out.extend_from_slice(&bytes[..b]);
                    self.out_budget = Some(0);
                    self.probe("write_fault_raised");
                    throw("io error: writing")
                }
            }
        }
    }

    // -----------------------------------------------------------------------------------------
    // evaluation

    pub fn truthy(&mut self, v: &V) -> R<bool> {
        match truthy(v) {
            Some(b) => Ok(b),
            None => match v {
                // a lazily derived stream is empty iff iteration yields nothing
                V::Stream(s) => {
                    if Model::stream_is_infinite(s) {
                        unknown("truthiness of lazily derived infinite stream")
                    } else {
                        Ok(!self.force_stream_quiet(&s.clone())?.is_empty())
                    }
                }
                _ => unknown("truthiness"),
            },
        }
    }

    fn eval_rhs(&mut self, sc: &ScopeRef, e: &Ex) -> R<V> {
        match e {
            Ex::CommaSeq(xs) => Ok(V::List(self.eval_seq(sc, xs)?)),
            e => self.eval(sc, e),
        }
    }

    /// expressions with splats expanded
    fn eval_seq(&mut self, sc: &ScopeRef, xs: &[Ex]) -> R<Vec<V>> {
        let mut acc = Vec::new();
        for x in xs {
            match x {
                Ex::Splat(inner) => {
                    let v = self.eval(sc, inner)?;
                    acc.extend(self.iterate(&v, "splat")?);
                }
                x => acc.push(self.eval(sc, x)?),
            }
        }
        Ok(acc)
    }

    pub fn eval(&mut self, sc: &ScopeRef, e: &Ex) -> R<V> {
        self.tick()?;
        if self.depth > 200 {
            return unknown("model recursion depth");
        }
        self.depth += 1;
        let r = self.eval_inner(sc, e);
        self.depth -= 1;
        r
    }

    fn eval_inner(&mut self, sc: &ScopeRef, e: &Ex) -> R<V> {
        match e {
            Ex::Null => Ok(V::Null),
            // a negative integer literal is written `(0-n)`: it means what `-` means right now
            Ex::Num(NumLit::Int(i)) if *i < 0 => match Model::lookup(sc, "-") {
                Some(V::Func(f)) if matches!(&*f, FuncV::Builtin(b) if b == "-") => Ok(num_lit(&NumLit::Int(*i))),
                Some(V::Func(f)) => self.call_func_at(sc, &f, vec![vint(0), V::Int(-BigInt::from(*i))]),
                Some(_) => throw("type error: operator is not function"),
                None => throw("name error: no such variable"),
            },
            Ex::Num(n) => Ok(num_lit(n)),
            Ex::Str(s) => Ok(V::Str(s.clone())),
            Ex::Var(name) => {
                if !self.poisoned.is_empty() && self.poisoned.iter().any(|n| n == name) {
                    return unknown("reading a variable whose slot a failed operator-assignment dropped");
                }
                match Model::lookup(sc, name) {
                    Some(v) => Ok(v),
                    None => throw("name error: no such variable"),
                }
            }
            Ex::List(xs) => Ok(V::List(self.eval_seq(sc, xs)?)),
            Ex::Dict(def, kvs) => {
                let dv = match def {
                    Some(d) => Some(Box::new(self.eval(sc, d)?)),
                    None => None,
                };
                let mut d = Dict {
                    entries: Vec::new(),
                    default: dv,
                    amb: false,
                };
                for (ke, ve) in kvs {
                    if let Ex::Splat(_) = ke {
                        return unknown("dict splat");
                    }
                    let k = self.eval(sc, ke)?;
                    let k = self.to_key(k)?;
                    let v = match ve {
                        Some(ve) => self.eval(sc, ve)?,
                        None => V::Null,
                    };
                    d.insert(k, v);
                }
                Ok(V::Dict(d))
            }
            Ex::Index(x, i) => {
                let xv = self.eval(sc, x)?;
                let iv = self.eval(sc, i)?;
                self.index(&xv, &iv)
            }
            Ex::Slice(x, a, b) => {
                let xv = self.eval(sc, x)?;
                let av = match a {
                    Some(a) => Some(self.eval(sc, a)?),
                    None => None,
                };
                let bv = match b {
                    Some(b) => Some(self.eval(sc, b)?),
                    None => None,
                };
                self.slice(&xv, av.as_ref(), bv.as_ref())
            }
            Ex::Call(f, args) => {
                let fv = self.eval(sc, f)?;
                let argv = self.eval_seq(sc, args)?;
                match &fv {
                    V::Func(f) => self.call_func_at(sc, f, argv),
                    _ => {
                        // call_or_part_apply: a non-function callee with exactly one function
                        // argument partially applies; everything else raises
                        if argv.len() == 1 {
                            if let V::Func(_) = &argv[0] {
                                return unknown("partial application through non-function callee");
                            }
                        }
                        throw("type error: can't call non-function")
                    }
                }
            }
            Ex::Splat(_) => throw("syntax error: splat"),
            Ex::Bin(l, op, r) => {
                let lv = self.eval(sc, l)?;
                let opv = match Model::lookup(sc, op) {
                    Some(v) => v,
                    None => return throw("name error: no such variable"),
                };
                match &opv {
                    V::Func(f) => {
                        let rv = self.eval(sc, r)?;
                        self.call_func_at(sc, f, vec![lv, rv])
                    }
                    _ => throw("type error: chain cannot use nonblock in operator position"),
                }
            }
            Ex::Chain(first, rest) => {
                // operands and operators are evaluated once, left to right; grouping follows the
                // precedence and associativity carried by the operator *values* at this moment
                let mut operands = vec![self.eval(sc, first)?];
                let mut ops: Vec<(Rc<FuncV>, f64, bool)> = Vec::new();
                for (op, x) in rest {
                    let opv = match Model::lookup(sc, op) {
                        Some(v) => v,
                        None => return throw("name error: no such variable"),
                    };
                    let f = match &opv {
                        V::Func(f) => f.clone(),
                        _ => return throw("type error: chain cannot use nonblock in operator position"),
                    };
                    let (prec, right) = match precedence_of(&f) {
                        Some(p) => p,
                        None => return unknown("precedence of this function value"),
                    };
                    if chains_with_neighbours(&f) && !is_comparison(&f) {
                        return unknown("self-chaining operator in a multi-operator chain");
                    }
                    ops.push((f, prec, right));
                    operands.push(self.eval(sc, x)?);
                }
                // operator-precedence reduction; a comparison that would be run because the next
                // operator does not bind tighter merges with that operator instead when it is a
                // comparison too (`a < b <= c` is one test over three operands)
                let mut rightmost: V = operands.remove(0);
                let mut pend: Vec<(Vec<V>, Vec<Rc<FuncV>>, f64, bool)> = Vec::new();
                for (op, operand) in ops.into_iter().zip(operands.into_iter()) {
                    let mut merged = false;
                    while let Some(top) = pend.last() {
                        let tighter = top.2 > op.1 || (!(top.2 < op.1) && !top.3);
                        if !tighter {
                            break;
                        }
                        let (mut xs, fs, prec, right) = pend.pop().unwrap();
                        if is_comparison(&fs[0]) && is_comparison(&op.0) {
                            xs.push(std::mem::replace(&mut rightmost, operand.clone()));
                            let mut fs = fs;
                            fs.push(op.0.clone());
                            pend.push((xs, fs, prec, right));
                            merged = true;
                            break;
                        }
                        xs.push(std::mem::replace(&mut rightmost, V::Null));
                        rightmost = self.run_chain_group(sc, &fs, xs)?;
                    }
                    if !merged {
                        pend.push((vec![std::mem::replace(&mut rightmost, operand)], vec![op.0], op.1, op.2));
                    }
                }
                while let Some((mut xs, fs, _, _)) = pend.pop() {
                    xs.push(std::mem::replace(&mut rightmost, V::Null));
                    rightmost = self.run_chain_group(sc, &fs, xs)?;
                }
                Ok(rightmost)
            }
            Ex::Update(x, kvs) => {
                let mut xv = self.eval(sc, x)?;
                for (k, v) in kvs {
                    let kv = self.eval(sc, k)?;
                    let vv = self.eval(sc, v)?;
                    self.set_index(&mut xv, &[EIx::Index(kv)], Some(vv), false)?;
                }
                Ok(xv)
            }
            Ex::And(a, b) => {
                let av = self.eval(sc, a)?;
                if self.truthy(&av)? {
                    self.eval(sc, b)
                } else {
                    Ok(av)
                }
            }
            Ex::Or(a, b) => {
                let av = self.eval(sc, a)?;
                if self.truthy(&av)? {
                    Ok(av)
                } else {
                    self.eval(sc, b)
                }
            }
            Ex::Coalesce(a, b) => {
                let av = self.eval(sc, a)?;
                if let V::Null = av {
                    self.eval(sc, b)
                } else {
                    Ok(av)
                }
            }
            Ex::Seq(xs, trailing) => {
                let mut last = V::Null;
                for x in xs {
                    last = self.eval(sc, x)?;
                }
                if *trailing {
                    Ok(V::Null)
                } else {
                    Ok(last)
                }
            }
            Ex::If(c, a, b) => {
                let cv = self.eval(sc, c)?;
                if self.truthy(&cv)? {
                    self.eval(sc, a)
                } else {
                    match b {
                        Some(b) => self.eval(sc, b),
                        None => Ok(V::Null),
                    }
                }
            }
            Ex::While(c, body) => loop {
                self.tick()?;
                let inner = new_scope(Some(sc.clone()));
                let cv = self.eval(&inner, c)?;
                if !self.truthy(&cv)? {
                    return Ok(V::Null);
                }
                match self.eval(&inner, body) {
                    Ok(_) => {}
                    Err(Ctl::Break(0, v)) => return Ok(v.unwrap_or(V::Null)),
                    Err(Ctl::Continue(0)) => continue,
                    Err(Ctl::Break(n, v)) => return Err(Ctl::Break(n - 1, v)),
                    Err(Ctl::Continue(n)) => return Err(Ctl::Continue(n - 1)),
                    Err(e) => return Err(e),
                }
            },
            Ex::For(clauses, body) => self.eval_for(sc, clauses, body),
            Ex::Break(n, v) => {
                let v = match v {
                    Some(v) => Some(self.eval(sc, v)?),
                    None => None,
                };
                Err(Ctl::Break(*n, v))
            }
            Ex::Continue(n) => Err(Ctl::Continue(*n)),
            Ex::Return(v) => {
                let v = match v {
                    Some(v) => self.eval(sc, v)?,
                    None => V::Null,
                };
                Err(Ctl::Return(v))
            }
            Ex::Try(body, pat, handler) => match self.eval(sc, body) {
                Err(Ctl::Throw(ev)) => {
                    let inner = new_scope(Some(sc.clone()));
                    let p = self.eval_lv(&inner, pat)?;
                    match self.assign(&inner, &p, Some(&Ty::Any), ev.clone()) {
                        Ok(()) => {
                            self.probe("catch_ran");
                            self.eval(&inner, handler)
                        }
                        Err(Ctl::Throw(_)) | Err(Ctl::Break(..)) | Err(Ctl::Continue(_))
                        | Err(Ctl::Return(_)) => Err(Ctl::Throw(ev)),
                        Err(e) => Err(e),
                    }
                }
                x => x,
            },
            Ex::Throw(e) => {
                let v = self.eval(sc, e)?;
                Err(Ctl::Throw(v))
            }
            Ex::Lambda(params, body) => Ok(V::Func(Rc::new(FuncV::Closure {
                params: params.clone(),
                body: (**body).clone(),
                env: sc.clone(),
            }))),
            Ex::Switch(scrut, arms) => {
                let s = self.eval(sc, scrut)?;
                for (pat, body) in arms {
                    let inner = new_scope(Some(sc.clone()));
                    let p = self.eval_lv(&inner, pat)?;
                    match self.assign(&inner, &p, Some(&Ty::Any), s.clone()) {
                        Ok(()) => return self.eval(&inner, body),
                        Err(Ctl::Unknown(m)) => return Err(Ctl::Unknown(m)),
                        Err(Ctl::Fuel) => return Err(Ctl::Fuel),
                        Err(_) => continue,
                    }
                }
                throw("value error: no case matched")
            }
            Ex::Assign(every, pat, rhs) => {
                let p = self.eval_lv(sc, pat)?;
                let v = self.eval_rhs(sc, rhs)?;
                if *every {
                    self.assign_every(sc, &p, None, v)?;
                } else {
                    self.assign(sc, &p, None, v)?;
                }
                Ok(V::Null)
            }
            Ex::CommaSeq(_) => throw("syntax error: comma seq"),
            Ex::OpAssign(every, pat, op, rhs) => self.op_assign(sc, *every, pat, op, rhs),
            Ex::Pop(pat) => match self.eval_lv(sc, pat)? {
                ELv::Ident(name, ixs) => self.modify_ident(sc, &name, &ixs, &mut |_m, x| match x {
                    V::List(xs) => match xs.pop() {
                        Some(v) => Ok(v),
                        None => throw("empty error: can't pop empty"),
                    },
                    V::Vector(_) | V::Bytes(_) | V::Str(_) => throw_unsupported("type error: can't pop"),
                    _ => throw("type error: can't pop"),
                }),
                _ => throw("type error: can't pop, weird pattern"),
            },
            Ex::Consume(pat) => match self.eval_lv(sc, pat)? {
                ELv::Ident(name, ixs) => {
                    self.modify_ident(sc, &name, &ixs, &mut |_m, x| Ok(std::mem::replace(x, V::Null)))
                }
                _ => throw("type error: can't consume, weird pattern"),
            },
            Ex::Remove(pat) => match self.eval_lv(sc, pat)? {
                ELv::Ident(name, mut ixs) => {
                    let last = match ixs.pop() {
                        Some(l) => l,
                        None => return throw("value error: can't remove flat identifier"),
                    };
                    self.modify_ident(sc, &name, &ixs, &mut |m, x| match &last {
                        EIx::Index(i) => m.remove_index(x, i),
                        EIx::Slice(a, b) => m.remove_slice(x, a.as_ref(), b.as_ref()),
                    })
                }
                _ => throw("type error: can't remove, weird pattern"),
            },
            Ex::Swap(a, b) => {
                let al = self.eval_lv(sc, a)?;
                let bl = self.eval_lv(sc, b)?;
                let ao = self.lv_as_value(sc, &al)?;
                let bo = self.lv_as_value(sc, &bl)?;
                self.assign(sc, &al, None, bo)?;
                self.assign(sc, &bl, None, ao)?;
                Ok(V::Null)
            }
            Ex::Freeze(inner) => {
                let a = crate::freevars::Analysis::of(inner);
                if let Some(m) = &a.ambiguous {
                    return unknown(&format!("freeze: {}", m));
                }
                // every free variable is resolved now; frozen code cannot write to an outer variable
                let mut snapshot = Vec::new();
                for n in a.free_read.iter().chain(a.free_written.iter()) {
                    match Model::lookup(sc, n) {
                        Some(v) => snapshot.push((n.clone(), Ty::Any, v)),
                        None => return throw("name error: free variable of frozen expression is unbound"),
                    }
                }
                if !a.free_written.is_empty() {
                    return throw("name error: frozen code assigns to an outer variable");
                }
                let frozen_scope = new_scope(None);
                frozen_scope.borrow_mut().vars = snapshot;
                self.probe("freeze");
                match &**inner {
                    Ex::Lambda(params, body) => Ok(V::Func(Rc::new(FuncV::Closure {
                        params: params.clone(),
                        body: (**body).clone(),
                        env: frozen_scope,
                    }))),
                    other => {
                        if a.declares_at_top {
                            return unknown("freeze of an expression that declares in the current scope");
                        }
                        let child = new_scope(Some(frozen_scope));
                        self.eval(&child, other)
                    }
                }
            }
            Ex::StructDef(name, fields) => {
                let mut fs = Vec::new();
                for (f, d) in fields {
                    let dv = match d {
                        Some(d) => Some(self.eval(sc, d)?),
                        None => None,
                    };
                    fs.push((f.clone(), dv));
                }
                let sid = self.structs.len();
                self.structs.push(StructDef {
                    name: name.clone(),
                    fields: fs.clone(),
                });
                self.assign(
                    sc,
                    &ELv::Ident(name.clone(), vec![]),
                    Some(&Ty::Func),
                    V::Func(Rc::new(FuncV::Type(Ty::Struct(sid)))),
                )?;
                for (i, (f, _)) in fs.iter().enumerate() {
                    self.assign(
                        sc,
                        &ELv::Ident(f.clone(), vec![]),
                        Some(&Ty::Func),
                        V::Func(Rc::new(FuncV::Field(sid, i))),
                    )?;
                }
                Ok(V::Null)
            }
            Ex::EvalOf(inner) => self.eval(sc, inner),
            Ex::EvalText(_) => unknown("eval of arbitrary text"),
        }
    }

    fn eval_for(&mut self, sc: &ScopeRef, clauses: &[Clause], body: &ForBody) -> R<V> {
        match body {
            ForBody::Do(b) => {
                let r = self.for_clauses(sc, clauses, &mut |m, inner| {
                    m.eval(inner, b)?;
                    Ok(())
                });
                match r {
                    Ok(()) => Ok(V::Null),
                    Err(Ctl::Break(0, v)) => Ok(v.unwrap_or(V::Null)),
                    Err(Ctl::Break(n, v)) => Err(Ctl::Break(n - 1, v)),
                    Err(Ctl::Continue(n)) if n != 0 => Err(Ctl::Continue(n - 1)),
                    Err(e) => Err(e),
                }
            }
            ForBody::Yield(b, into) => {
                // `into f`: a folding builtin consumes the yields one by one; any other function
                // is applied to the list of yields afterwards
                #[derive(PartialEq)]
                enum Fold {
                    List,
                    Sum,
                    First,
                    Last,
                }
                let mut fold = Fold::List;
                let mut post: Option<Rc<FuncV>> = None;
                if let Some(f) = into {
                    let fv = self.eval(sc, f)?;
                    match &fv {
                        V::Func(ff) => match &**ff {
                            FuncV::Builtin(n) => match n.as_str() {
                                "sum" => fold = Fold::Sum,
                                "first" => fold = Fold::First,
                                "last" => fold = Fold::Last,
                                "len" | "sort" | "reverse" | "id" => post = Some(ff.clone()),
                                _ => return unknown("yield into builtin"),
                            },
                            FuncV::Closure { .. } => post = Some(ff.clone()),
                            _ => return unknown("yield into function kind"),
                        },
                        _ => return unknown("yield into non-function"),
                    }
                }
                let mut acc: Vec<V> = Vec::new();
                let mut total = BigInt::zero();
                let r = self.for_clauses(sc, clauses, &mut |m, inner| {
                    let v = m.eval(inner, b)?;
                    match fold {
                        Fold::List | Fold::Last => acc.push(v),
                        Fold::Sum => match &v {
                            V::Int(n) => total += n,
                            x if is_num(x) || matches!(x, V::Vector(_)) => return unknown("sum of non-int"),
                            _ => return throw("argument error: + only accepts numbers"),
                        },
                        Fold::First => return Err(Ctl::Break(0, Some(v))),
                    }
                    Ok(())
                });
                let res = match r {
                    Ok(()) | Err(Ctl::Break(0, None)) => match fold {
                        Fold::List => Ok(V::List(acc)),
                        Fold::Sum => Ok(V::Int(total)),
                        Fold::First => throw("empty error: cata-first: empty"),
                        Fold::Last => match acc.pop() {
                            Some(v) => Ok(v),
                            None => throw("empty error: cata-last: empty"),
                        },
                    },
                    Err(Ctl::Break(0, Some(v))) => Ok(v),
                    Err(Ctl::Break(n, v)) => Err(Ctl::Break(n - 1, v)),
                    Err(Ctl::Continue(n)) if n != 0 => Err(Ctl::Continue(n - 1)),
                    Err(e) => Err(e),
                };
                match post {
                    Some(f) => {
                        let v = res?;
                        self.call_func_at(sc, &f, vec![v])
                    }
                    None => res,
                }
            }
            ForBody::YieldItem(k, v, into) => {
                // per key: without `into` the last value wins; `into f` folds the values of each key
                // separately (a folding builtin one value at a time, any other function applied to
                // the list of that key's values afterwards)
                #[derive(PartialEq, Clone, Copy)]
                enum Fold {
                    Last,
                    First,
                    Sum,
                    List,
                }
                let mut fold = Fold::Last;
                let mut post: Option<Rc<FuncV>> = None;
                if let Some(f) = into {
                    let fv = self.eval(sc, f)?;
                    match &fv {
                        V::Func(ff) => match &**ff {
                            FuncV::Builtin(n) => match n.as_str() {
                                "sum" => fold = Fold::Sum,
                                "first" => fold = Fold::First,
                                "last" => fold = Fold::Last,
                                "len" | "sort" | "reverse" | "id" => {
                                    fold = Fold::List;
                                    post = Some(ff.clone());
                                }
                                _ => return unknown("yield item into builtin"),
                            },
                            // called once per key in hash order: only predictable if it has no effects
                            _ => return unknown("yield item into function kind"),
                        },
                        _ => return unknown("yield item into non-function"),
                    }
                }
                let mut acc: Vec<(V, Vec<V>)> = Vec::new();
                let r = self.for_clauses(sc, clauses, &mut |m, inner| {
                    let kv = m.eval(inner, k)?;
                    let kv = m.to_key(kv)?;
                    let pos = acc.iter().position(|(k2, _)| key_eq(k2, &kv));
                    if fold == Fold::First && pos.is_some() {
                        // the fold of this key has finished: the value is not even evaluated
                        return Ok(());
                    }
                    // (the key gets its entry only once its first value has been computed)
                    let vv = m.eval(inner, v)?;
                    if fold == Fold::Sum {
                        match &vv {
                            V::Int(_) => {}
                            x if is_num(x) || matches!(x, V::Vector(_)) => return unknown("sum of non-int"),
                            _ => return throw("argument error: + only accepts numbers"),
                        }
                    }
                    match pos {
                        Some(j) => acc[j].1.push(vv),
                        None => acc.push((kv, vec![vv])),
                    }
                    Ok(())
                });
                match r {
                    Ok(()) | Err(Ctl::Break(0, None)) => {
                        let mut d = Dict::new();
                        for (kk, vs) in acc {
                            let val = match fold {
                                Fold::Last => match vs.last() {
                                    Some(x) => x.clone(),
                                    None => return unknown("yield item: key without value"),
                                },
                                Fold::First => match vs.first() {
                                    Some(x) => x.clone(),
                                    None => return unknown("yield item: key without value"),
                                },
                                Fold::Sum => {
                                    let mut t = BigInt::zero();
                                    for x in vs.iter() {
                                        if let V::Int(n) = x {
                                            t += n;
                                        }
                                    }
                                    V::Int(t)
                                }
                                Fold::List => {
                                    let f = post.clone().unwrap();
                                    self.call_func_at(sc, &f, vec![V::List(vs)])?
                                }
                            };
                            d.insert(kk, val);
                        }
                        Ok(V::Dict(d))
                    }
                    Err(Ctl::Break(0, Some(v))) => Ok(v),
                    Err(Ctl::Break(n, v)) => Err(Ctl::Break(n - 1, v)),
                    Err(Ctl::Continue(n)) if n != 0 => Err(Ctl::Continue(n - 1)),
                    Err(e) => Err(e),
                }
            }
        }
    }

    fn for_clauses(
        &mut self,
        sc: &ScopeRef,
        clauses: &[Clause],
        cb: &mut dyn FnMut(&mut Model, &ScopeRef) -> R<()>,
    ) -> R<()> {
        match clauses.split_first() {
            None => match cb(self, sc) {
                Err(Ctl::Continue(0)) => Ok(()),
                x => x,
            },
            Some((Clause::Each(pat, e), rest)) => {
                let it = self.eval(sc, e)?;
                if let V::Dict(d) = &it {
                    if d.entries.len() >= 2 {
                        return unknown("for over a dict with several keys (hash order)");
                    }
                }
                let items = self.iterate_lazy(&it, "for iteration")?;
                let mut items = items;
                loop {
                    self.tick()?;
                    let x = match items.next(self)? {
                        Some(x) => x,
                        None => break,
                    };
                    let inner = new_scope(Some(sc.clone()));
                    let p = self.eval_lv(&inner, pat)?;
                    self.assign(&inner, &p, Some(&Ty::Any), x)?;
                    self.for_clauses(&inner, rest, cb)?;
                }
                Ok(())
            }
            Some((Clause::Pairs(pat, e), rest)) => {
                let it = self.eval(sc, e)?;
                if let V::Dict(d) = &it {
                    if d.entries.len() >= 2 {
                        return unknown("for over a dict with several keys (hash order)");
                    }
                }
                let pairs = self.iterate_pairs(&it)?;
                for (k, v) in pairs {
                    self.tick()?;
                    let inner = new_scope(Some(sc.clone()));
                    let p = self.eval_lv(&inner, pat)?;
                    self.assign(&inner, &p, Some(&Ty::Any), V::List(vec![k, v]))?;
                    self.for_clauses(&inner, rest, cb)?;
                }
                Ok(())
            }
            Some((Clause::Decl(pat, e), rest)) => {
                let v = self.eval(sc, e)?;
                let inner = new_scope(Some(sc.clone()));
                let p = self.eval_lv(&inner, pat)?;
                self.assign(&inner, &p, Some(&Ty::Any), v)?;
                self.for_clauses(&inner, rest, cb)
            }
            Some((Clause::Guard(g), rest)) => {
                let gv = self.eval(sc, g)?;
                if self.truthy(&gv)? {
                    self.for_clauses(sc, rest, cb)
                } else {
                    Ok(())
                }
            }
        }
    }

    // -----------------------------------------------------------------------------------------
    // iteration

    /// eager element list of a finite sequence (dict: keys in insertion order -- callers that
    /// expose order must sort or be order-insensitive)
    pub fn iterate(&mut self, v: &V, _purpose: &str) -> R<Vec<V>> {
        match v {
            V::List(xs) | V::Vector(xs) => Ok(xs.clone()),
            V::Str(s) => Ok(s.chars().map(|c| V::Str(c.to_string())).collect()),
            V::Bytes(b) => Ok(b.iter().map(|x| vint(*x as i64)).collect()),
            V::Dict(d) => {
                if d.amb && !d.entries.is_empty() {
                    return unknown("key spelling not determined (equal keys of different spellings met)");
                }
                Ok(d.entries.iter().map(|(k, _)| k.clone()).collect())
            }
            V::Stream(s) => self.force_stream(s),
            _ => throw("type error: not iterable"),
        }
    }

    fn iterate_lazy(&mut self, v: &V, purpose: &str) -> R<LazyIter> {
        match v {
            V::Stream(s) => Ok(LazyIter::Stream(s.clone())),
            v => Ok(LazyIter::Vec(self.iterate(v, purpose)?.into_iter())),
        }
    }

    fn iterate_pairs(&mut self, v: &V) -> R<Vec<(V, V)>> {
        match v {
            V::Dict(d) => {
                if d.amb && !d.entries.is_empty() {
                    return unknown("key spelling not determined (equal keys of different spellings met)");
                }
                Ok(d.entries.clone())
            }
            V::Stream(StreamV::Fin(xs)) => Ok(xs
                .iter()
                .enumerate()
                .map(|(i, x)| (vint(i as i64), x.clone()))
                .collect()),
            V::Stream(_) => unknown("pairs over lazy stream"),
            v => {
                let xs = self.iterate(v, "pairs")?;
                Ok(xs
                    .into_iter()
                    .enumerate()
                    .map(|(i, x)| (vint(i as i64), x))
                    .collect())
            }
        }
    }

    /// next element of a model stream together with the rest
    pub fn stream_next(&mut self, s: &StreamV) -> R<Option<(V, StreamV)>> {
        self.tick()?;
        match s {
            StreamV::Fin(xs) => Ok(if xs.is_empty() {
                None
            } else {
                Some((xs[0].clone(), StreamV::Fin(xs[1..].to_vec())))
            }),
            StreamV::Iota(n) => Ok(Some((V::Int(n.clone()), StreamV::Iota(n + BigInt::one())))),
            StreamV::Repeat(v) => Ok(Some(((**v).clone(), s.clone()))),
            StreamV::Cycle(xs, i) => {
                if xs.is_empty() {
                    return unknown("cycle of empty");
                }
                Ok(Some((xs[*i].clone(), StreamV::Cycle(xs.clone(), (*i + 1) % xs.len()))))
            }
            StreamV::Map(inner, f) => match self.stream_next(inner)? {
                None => Ok(None),
                Some((x, rest)) => {
                    let y = self.call_func(f, vec![x])?;
                    Ok(Some((y, StreamV::Map(Box::new(rest), f.clone()))))
                }
            },
            StreamV::Filter(inner, f) => {
                let mut cur = (**inner).clone();
                loop {
                    match self.stream_next(&cur)? {
                        None => return Ok(None),
                        Some((x, rest)) => {
                            let keep = self.call_func(f, vec![x.clone()])?;
                            if self.truthy(&keep)? {
                                return Ok(Some((x, StreamV::Filter(Box::new(rest), f.clone()))));
                            }
                            cur = rest;
                        }
                    }
                }
            }
            StreamV::Iterate(x, f) => {
                let nx = self.call_func(f, vec![(**x).clone()])?;
                Ok(Some(((**x).clone(), StreamV::Iterate(Box::new(nx), f.clone()))))
            }
            StreamV::Zip(members, f) => {
                let mut heads = Vec::new();
                let mut rests = Vec::new();
                for m in members {
                    match self.stream_next(m)? {
                        None => return Ok(None),
                        Some((x, rest)) => {
                            heads.push(x);
                            rests.push(rest);
                        }
                    }
                }
                let y = match f {
                    Some(f) => self.call_func(f, heads)?,
                    None => V::List(heads),
                };
                Ok(Some((y, StreamV::Zip(rests, f.clone()))))
            }
        }
    }

    /// for consumers that do not propagate an error met while skipping or counting elements (the
    /// implementation's behaviour there is unspecified): the model declines instead of guessing
    fn stream_next_quiet(&mut self, s: &StreamV) -> R<Option<(V, StreamV)>> {
        match self.stream_next(s) {
            Err(Ctl::Throw(_)) => unknown("error inside a lazy callback while skipping/counting elements"),
            x => x,
        }
    }

    pub fn force_stream_quiet(&mut self, s: &StreamV) -> R<Vec<V>> {
        match self.force_stream(s) {
            Err(Ctl::Throw(_)) => unknown("error inside a lazy callback while skipping/counting elements"),
            x => x,
        }
    }

    pub fn stream_is_infinite(s: &StreamV) -> bool {
        match s {
            StreamV::Fin(_) => false,
            StreamV::Iota(_) | StreamV::Repeat(_) | StreamV::Cycle(..) | StreamV::Iterate(..) => true,
            StreamV::Map(inner, _) | StreamV::Filter(inner, _) => Model::stream_is_infinite(inner),
            StreamV::Zip(members, _) => members.iter().all(Model::stream_is_infinite),
        }
    }

    pub fn force_stream(&mut self, s: &StreamV) -> R<Vec<V>> {
        if Model::stream_is_infinite(s) {
            return unknown("forcing an infinite stream");
        }
        let mut out = Vec::new();
        let mut cur = s.clone();
        while let Some((x, rest)) = self.stream_next(&cur)? {
            out.push(x);
            cur = rest;
        }
        Ok(out)
    }

    // -----------------------------------------------------------------------------------------
    // keys, indexing

    pub fn to_key(&mut self, v: V) -> R<V> {
        let v = match v {
            V::Stream(s) => V::List(self.force_stream(&s)?),
            v => v,
        };
        if valid_key(&v) {
            Ok(v)
        } else {
            throw("type error: not usable as a dictionary key")
        }
    }

    fn pythonic_index(len: usize, i: &V) -> R<usize> {
        match i {
            V::Int(n) => match n.to_isize() {
                Some(n) => {
                    if n >= 0 && (n as usize) < len {
                        return Ok(n as usize);
                    }
                    if n < 0 && n + (len as isize) >= 0 {
                        return Ok((n + len as isize) as usize);
                    }
                    throw("index error: out of bounds")
                }
                None => throw("index error: out of bounds of isize"),
            },
            x if is_num(x) => throw_unsupported("index error: non-integer"),
            _ => throw("index error: invalid (non-numeric) index"),
        }
    }

    fn slice_bound(x: Option<&V>) -> R<Option<isize>> {
        match x {
            None => Ok(None),
            Some(V::Int(n)) => match n.to_isize() {
                Some(n) => Ok(Some(n)),
                None => throw("index error: slice index out of bounds of isize"),
            },
            Some(x) if is_num(x) => throw_unsupported("index error: slice index non-integer"),
            Some(_) => throw("index error: invalid slice index"),
        }
    }

    fn clamp(len: usize, i: isize) -> usize {
        if i >= 0 {
            (i as usize).min(len)
        } else {
            let j = i + len as isize;
            if j < 0 {
                0
            } else {
                j as usize
            }
        }
    }

    fn pythonic_slice(len: usize, lo: Option<&V>, hi: Option<&V>) -> R<(usize, usize)> {
        let lo = Model::slice_bound(lo)?;
        let hi = Model::slice_bound(hi)?;
        let clo = lo.map(|l| Model::clamp(len, l)).unwrap_or(0);
        let chi = hi.map(|h| Model::clamp(len, h)).unwrap_or(len);
        Ok((clo, chi.max(clo)))
    }

    fn byte_to_value(b: u8) -> V {
        if b < 128 {
            V::Str((b as char).to_string())
        } else {
            V::Bytes(vec![b])
        }
    }

    fn soft_utf8(bs: Vec<u8>) -> V {
        match String::from_utf8(bs) {
            Ok(s) => V::Str(s),
            Err(e) => V::Bytes(e.into_bytes()),
        }
    }

    pub fn index(&mut self, x: &V, i: &V) -> R<V> {
        match x {
            V::List(xs) => Ok(xs[Model::pythonic_index(xs.len(), i)?].clone()),
            V::Str(s) => {
                let bs = s.as_bytes();
                let j = Model::pythonic_index(bs.len(), i)?;
                Ok(Model::byte_to_value(bs[j]))
            }
            V::Dict(d) => {
                let k = self.to_key(i.clone())?;
                match d.get(&k) {
                    Some(v) => Ok(v.clone()),
                    None => match &d.default {
                        Some(dv) => Ok((**dv).clone()),
                        None => throw("key error: nothing at key"),
                    },
                }
            }
            V::Vector(xs) => Ok(xs[Model::pythonic_index(xs.len(), i)?].clone()),
            V::Bytes(b) => Ok(vint(b[Model::pythonic_index(b.len(), i)?] as i64)),
            V::Stream(s) => {
                let n = match i {
                    V::Int(n) => match n.to_isize() {
                        Some(n) => n,
                        None => return throw("index error: out of bounds of isize"),
                    },
                    x if is_num(x) => return throw("index error: non-integer"),
                    _ => return throw("index error: invalid index"),
                };
                if n >= 0 {
                    let mut cur = s.clone();
                    let mut k = n;
                    loop {
                        match self.stream_next(&cur)? {
                            None => return throw("index error: out of bounds"),
                            Some((x, rest)) => {
                                if k == 0 {
                                    return Ok(x);
                                }
                                k -= 1;
                                cur = rest;
                            }
                        }
                    }
                } else {
                    if Model::stream_is_infinite(s) {
                        return unknown("negative index into infinite stream");
                    }
                    let xs = self.force_stream(s)?;
                    let j = n + xs.len() as isize;
                    if j >= 0 && (j as usize) < xs.len() {
                        Ok(xs[j as usize].clone())
                    } else {
                        throw("index error: out of bounds")
                    }
                }
            }
            V::Inst(sid, fields) => match i {
                V::Func(f) => match &**f {
                    FuncV::Field(s2, fi) => {
                        if sid == s2 {
                            Ok(fields[*fi].clone())
                        } else {
                            throw("index error: wrong struct type")
                        }
                    }
                    _ => throw("type error: can't index"),
                },
                _ => throw("type error: can't index"),
            },
            _ => throw("type error: can't index"),
        }
    }

    pub fn slice(&mut self, x: &V, lo: Option<&V>, hi: Option<&V>) -> R<V> {
        match x {
            V::List(xs) => {
                let (a, b) = Model::pythonic_slice(xs.len(), lo, hi)?;
                Ok(V::List(xs[a..b].to_vec()))
            }
            V::Str(s) => {
                let bs = s.as_bytes();
                let (a, b) = Model::pythonic_slice(bs.len(), lo, hi)?;
                Ok(Model::soft_utf8(bs[a..b].to_vec()))
            }
            V::Vector(xs) => {
                let (a, b) = Model::pythonic_slice(xs.len(), lo, hi)?;
                Ok(V::Vector(xs[a..b].to_vec()))
            }
            V::Bytes(bs) => {
                let (a, b) = Model::pythonic_slice(bs.len(), lo, hi)?;
                Ok(V::Bytes(bs[a..b].to_vec()))
            }
            V::Stream(s) => {
                let lo = Model::slice_bound(lo)?.unwrap_or(0);
                let hi = Model::slice_bound(hi)?;
                match hi {
                    None if lo >= 0 => {
                        let mut cur = s.clone();
                        for _ in 0..lo {
                            match self.stream_next_quiet(&cur)? {
                                Some((_, rest)) => cur = rest,
                                None => break,
                            }
                        }
                        Ok(V::Stream(cur))
                    }
                    Some(hi) if lo >= 0 && hi >= 0 => {
                        let mut cur = s.clone();
                        let mut out = Vec::new();
                        let mut done = false;
                        for _ in 0..lo {
                            match self.stream_next_quiet(&cur)? {
                                Some((_, rest)) => cur = rest,
                                None => {
                                    done = true;
                                    break;
                                }
                            }
                        }
                        if !done {
                            for _ in lo..hi {
                                match self.stream_next(&cur)? {
                                    Some((x, rest)) => {
                                        out.push(x);
                                        cur = rest;
                                    }
                                    None => break,
                                }
                            }
                        }
                        Ok(V::List(out))
                    }
                    hi => {
                        if Model::stream_is_infinite(s) {
                            return unknown("negative slice of infinite stream");
                        }
                        let xs = self.force_stream(s)?;
                        let len = xs.len();
                        let clo = Model::clamp(len, lo);
                        let chi = hi.map(|h| Model::clamp(len, h)).unwrap_or(len);
                        Ok(V::List(xs[clo..chi.max(clo)].to_vec()))
                    }
                }
            }
            V::Dict(_) => throw("type error: can't slice dictionary"),
            _ => throw("type error: can't slice"),
        }
    }

    fn remove_index(&mut self, x: &mut V, i: &V) -> R<V> {
        match x {
            V::List(xs) => {
                let j = Model::pythonic_index(xs.len(), i)?;
                Ok(xs.remove(j))
            }
            V::Dict(d) => {
                let k = self.to_key(i.clone())?;
                match d.remove(&k) {
                    Some(v) => Ok(v),
                    None => throw("key error: key not found"),
                }
            }
            V::Vector(_) | V::Bytes(_) | V::Str(_) => throw_unsupported("type error: can't remove"),
            _ => throw("type error: can't remove"),
        }
    }

    fn remove_slice(&mut self, x: &mut V, lo: Option<&V>, hi: Option<&V>) -> R<V> {
        match x {
            V::List(xs) => {
                let (a, b) = Model::pythonic_slice(xs.len(), lo, hi)?;
                Ok(V::List(xs.drain(a..b).collect()))
            }
            V::Vector(_) | V::Bytes(_) | V::Str(_) => throw_unsupported("type error: can't remove"),
            _ => throw("type error: can't remove"),
        }
    }

    // -----------------------------------------------------------------------------------------
    // lvalues

    /// one operator applied to two operands, or a merged run of comparisons over n+1 operands
    fn run_chain_group(&mut self, sc: &ScopeRef, fs: &[Rc<FuncV>], xs: Vec<V>) -> R<V> {
        if fs.len() == 1 {
            return self.call_func_at(sc, &fs[0], xs);
        }
        for (i, f) in fs.iter().enumerate() {
            let r = self.call_func_at(sc, f, vec![xs[i].clone(), xs[i + 1].clone()])?;
            if !self.truthy(&r)? {
                return Ok(vint(0));
            }
        }
        Ok(vint(1))
    }

    fn eval_ix(&mut self, sc: &ScopeRef, ix: &Ix) -> R<EIx> {
        Ok(match ix {
            Ix::Index(e) => EIx::Index(self.eval(sc, e)?),
            Ix::Slice(a, b) => EIx::Slice(
                match a {
                    Some(a) => Some(self.eval(sc, a)?),
                    None => None,
                },
                match b {
                    Some(b) => Some(self.eval(sc, b)?),
                    None => None,
                },
            ),
        })
    }

    pub fn eval_lv(&mut self, sc: &ScopeRef, l: &Lv) -> R<ELv> {
        Ok(match l {
            Lv::Underscore => ELv::Underscore,
            Lv::Ident(name, ixs) => {
                let mut out = Vec::new();
                for ix in ixs {
                    out.push(self.eval_ix(sc, ix)?);
                }
                ELv::Ident(name.clone(), out)
            }
            Lv::Annot(inner, t) => {
                let i = self.eval_lv(sc, inner)?;
                let tv = match t {
                    Some(t) => Some(self.eval(sc, t)?),
                    None => None,
                };
                ELv::Annot(Box::new(i), tv)
            }
            Lv::Default(inner, d) => ELv::Default(Box::new(self.eval_lv(sc, inner)?), (**d).clone()),
            Lv::Seq(xs, b) => {
                let mut out = Vec::new();
                for x in xs {
                    out.push(self.eval_lv(sc, x)?);
                }
                ELv::Seq(out, *b)
            }
            Lv::Splat(inner) => ELv::Splat(Box::new(self.eval_lv(sc, inner)?)),
            Lv::Or(a, b) => ELv::Or(Box::new(self.eval_lv(sc, a)?), Box::new(self.eval_lv(sc, b)?)),
            Lv::And(a, b) => ELv::And(Box::new(self.eval_lv(sc, a)?), Box::new(self.eval_lv(sc, b)?)),
            Lv::Lit(e) => ELv::Lit(self.eval(sc, e)?),
            Lv::Cmp(args, ops) => {
                let mut out = Vec::new();
                for a in args {
                    out.push(self.eval_lv(sc, a)?);
                }
                ELv::DBuiltin(format!("cmp:{}", ops.join(" ")), out)
            }
            Lv::Destructure(f, args) => {
                let fv = self.eval(sc, f)?;
                let mut out = Vec::new();
                match &fv {
                    V::Func(ff) => match &**ff {
                        FuncV::Type(Ty::Struct(sid)) => {
                            for a in args {
                                out.push(self.eval_lv(sc, a)?);
                            }
                            ELv::DStruct(*sid, out)
                        }
                        FuncV::Builtin(name) => {
                            for a in args {
                                out.push(self.eval_lv(sc, a)?);
                            }
                            ELv::DBuiltin(name.clone(), out)
                        }
                        _ => return throw("type error: destructure callee"),
                    },
                    _ => return throw("type error: destructure callee"),
                }
            }
        })
    }

    fn lv_as_value(&mut self, sc: &ScopeRef, l: &ELv) -> R<V> {
        match l {
            ELv::Underscore => throw("syntax error: underscore on lhs"),
            ELv::Ident(name, ixs) => {
                if !self.poisoned.is_empty() && self.poisoned.iter().any(|n| n == name) {
                    return unknown("reading a variable whose slot a failed operator-assignment dropped");
                }
                let mut v = match Model::lookup(sc, name) {
                    Some(v) => v,
                    None => return throw("name error: no such variable"),
                };
                for ix in ixs {
                    v = match ix {
                        EIx::Index(i) => self.index(&v, i)?,
                        EIx::Slice(a, b) => self.slice(&v, a.as_ref(), b.as_ref())?,
                    };
                }
                Ok(v)
            }
            ELv::Annot(inner, _) => self.lv_as_value(sc, inner),
            // `(d[k] = dflt) f= v`: the default expression stands in exactly when no key equal to k
            // is present in a dictionary without a default of its own
            ELv::Default(inner, dflt) => match &**inner {
                ELv::Ident(name, ixs) if !ixs.is_empty() => {
                    let mut v = match Model::lookup(sc, name) {
                        Some(v) => v,
                        None => return throw("name error: no such variable"),
                    };
                    let (last, prefix) = ixs.split_last().unwrap();
                    for ix in prefix {
                        v = match ix {
                            EIx::Index(i) => self.index(&v, i)?,
                            EIx::Slice(a, b) => self.slice(&v, a.as_ref(), b.as_ref())?,
                        };
                    }
                    match (&v, last) {
                        (V::Dict(d), EIx::Index(k)) if d.default.is_none() => {
                            let k = self.to_key(k.clone())?;
                            match d.get(&k) {
                                Some(x) => Ok(x.clone()),
                                None => self.eval(sc, dflt),
                            }
                        }
                        (V::Dict(_), _) => throw("type error: default on lhs with defaulted dict"),
                        _ => throw("type error: default on lhs: non-dict or non-index"),
                    }
                }
                ELv::Ident(name, _) => match Model::lookup(sc, name) {
                    Some(v) => Ok(v),
                    None => throw("name error: no such variable"),
                },
                _ => unknown("default on lhs of op-assign"),
            },
            ELv::Seq(xs, _) => {
                let mut out = Vec::new();
                for x in xs {
                    out.push(self.lv_as_value(sc, x)?);
                }
                Ok(V::List(out))
            }
            ELv::Splat(_) => throw("syntax error: splat on lhs"),
            ELv::Or(..) => throw("syntax error: or on lhs"),
            ELv::And(..) => throw("syntax error: and on lhs"),
            ELv::Lit(v) => Ok(v.clone()),
            ELv::DStruct(..) | ELv::DBuiltin(..) => unknown("destructure as value"),
        }
    }

    /// mirror of modify_ident + modify_existing_index: run `f` on the addressed slot
    fn modify_ident(
        &mut self,
        sc: &ScopeRef,
        name: &str,
        ixs: &[EIx],
        f: &mut dyn FnMut(&mut Model, &mut V) -> R<V>,
    ) -> R<V> {
        // take the value out, work on it, put it back (the model has no aliasing to preserve)
        let cur = match Model::lookup(sc, name) {
            Some(v) => v,
            None => return throw("name error: variable not found"),
        };
        let mut cur = cur;
        let r = self.modify_existing_index(&mut cur, ixs, f);
        // the real thing mutates in place, so partial effects of a failed call are kept
        Model::with_var(sc, name, &mut |_, slot| *slot = cur.clone());
        r
    }

    fn modify_existing_index(
        &mut self,
        x: &mut V,
        ixs: &[EIx],
        f: &mut dyn FnMut(&mut Model, &mut V) -> R<V>,
    ) -> R<V> {
        if let (V::Stream(s), false) = (&*x, ixs.is_empty()) {
            let forced = self.force_stream(&s.clone())?;
            *x = V::List(forced);
        }
        match ixs.split_first() {
            None => f(self, x),
            Some((ix, rest)) => match (x, ix) {
                (V::List(xs), EIx::Index(i)) => {
                    let j = Model::pythonic_index(xs.len(), i)?;
                    self.modify_existing_index(&mut xs[j], rest, f)
                }
                (V::Dict(d), EIx::Index(i)) => {
                    let k = self.to_key(i.clone())?;
                    match d.find_w(&k) {
                        Some(j) => self.modify_existing_index(&mut d.entries[j].1, rest, f),
                        None => match d.default.clone() {
                            Some(dv) => {
                                d.entries.push((k, *dv));
                                let j = d.entries.len() - 1;
                                self.modify_existing_index(&mut d.entries[j].1, rest, f)
                            }
                            None => throw("key error: nothing at key"),
                        },
                    }
                }
                (V::Inst(sid, fields), EIx::Index(V::Func(ff))) => match &**ff {
                    FuncV::Field(s2, fi) => {
                        if sid == s2 {
                            self.modify_existing_index(&mut fields[*fi], rest, f)
                        } else {
                            throw("index error: wrong struct type")
                        }
                    }
                    _ => throw("type error: can't modify index"),
                },
                _ => throw("type error: can't modify index"),
            },
        }
    }

    pub fn set_index(&mut self, x: &mut V, ixs: &[EIx], value: Option<V>, every: bool) -> R<()> {
        if let (V::Stream(s), false) = (&*x, ixs.is_empty()) {
            let forced = self.force_stream(&s.clone())?;
            *x = V::List(forced);
        }
        let (ix, rest) = match ixs.split_first() {
            None => {
                *x = value.unwrap_or(V::Null);
                return Ok(());
            }
            Some(p) => p,
        };
        match (x, ix) {
            (V::List(xs), EIx::Index(i)) => {
                let j = Model::pythonic_index(xs.len(), i)?;
                self.set_index(&mut xs[j], rest, value, every)
            }
            (V::List(xs), EIx::Slice(a, b)) => {
                if every {
                    let (lo, hi) = Model::pythonic_slice(xs.len(), a.as_ref(), b.as_ref())?;
                    for j in lo..hi {
                        self.set_index(&mut xs[j], rest, value.clone(), true)?;
                    }
                    Ok(())
                } else {
                    // documented as unimplemented ("Assigning to slices is indefinitely
                    // unimplemented"); the implementation must raise, not crash
                    throw_unsupported("assigning to slice is unimplemented")
                }
            }
            (V::Str(s), EIx::Index(i)) if rest.is_empty() => match value {
                Some(V::Str(v)) => {
                    if v.as_bytes().len() == 1 {
                        let mut owned = s.clone().into_bytes();
                        let j = Model::pythonic_index(owned.len(), i)?;
                        owned[j] = v.as_bytes()[0];
                        match String::from_utf8(owned) {
                            Ok(r) => {
                                *s = r;
                                Ok(())
                            }
                            Err(err) => {
                                *s = String::from_utf8_lossy(err.as_bytes()).into_owned();
                                throw("value error: assigning to string result not utf-8")
                            }
                        }
                    } else {
                        throw_unsupported("value error: assigning to string index, not a byte")
                    }
                }
                Some(_) => throw("value error: assigning to string index, not a string"),
                None => Ok(()),
            },
            (V::Str(_), _) => throw("type error: string bad slice"),
            (V::Dict(d), EIx::Index(i)) => {
                let k = self.to_key(i.clone())?;
                if rest.is_empty() {
                    d.insert(k, value.unwrap_or(V::Null));
                    Ok(())
                } else {
                    match d.find_w(&k) {
                        Some(j) => self.set_index(&mut d.entries[j].1, rest, value, every),
                        None if d.default.is_some() => {
                            throw_unsupported("type error: setting dictionary: nothing at key")
                        }
                        None => throw("type error: setting dictionary: nothing at key"),
                    }
                }
            }
            (V::Dict(d), EIx::Slice(None, None)) if rest.is_empty() => {
                if every {
                    for j in 0..d.entries.len() {
                        self.set_index(&mut d.entries[j].1, rest, value.clone(), true)?;
                    }
                    Ok(())
                } else {
                    throw("type error: can't slice dictionaries except with every")
                }
            }
            (V::Dict(_), _) => throw("type error: dict bad slice"),
            (V::Vector(xs), EIx::Index(i)) if rest.is_empty() => match value {
                Some(n) if is_num(&n) => {
                    let j = Model::pythonic_index(xs.len(), i)?;
                    xs[j] = n;
                    Ok(())
                }
                Some(_) => throw("type error: vec bad value assign"),
                None => Ok(()),
            },
            (V::Vector(_), _) => throw("type error: vec bad slice"),
            (V::Bytes(bs), EIx::Index(i)) if rest.is_empty() => match value {
                Some(n) if is_num(&n) => {
                    let j = Model::pythonic_index(bs.len(), i)?;
                    let b = match &n {
                        V::Int(k) => k.to_u8(),
                        _ => None,
                    };
                    match b {
                        Some(b) => {
                            bs[j] = b;
                            Ok(())
                        }
                        None => throw("value error: can't to byte"),
                    }
                }
                Some(_) => throw("type error: bytes bad value assign"),
                None => Ok(()),
            },
            (V::Bytes(_), _) => throw("type error: bytes bad slice"),
            (V::Inst(sid, fields), EIx::Index(V::Func(ff))) => match &**ff {
                FuncV::Field(s2, fi) => {
                    if sid == s2 {
                        self.set_index(&mut fields[*fi], rest, value, every)
                    } else {
                        throw("index error: wrong struct type")
                    }
                }
                _ => throw("index error: can't set index"),
            },
            _ => throw("index error: can't set index"),
        }
    }

    fn assign_respecting_type(
        &mut self,
        sc: &ScopeRef,
        name: &str,
        ixs: &[EIx],
        rhs: V,
        every: bool,
    ) -> R<()> {
        let ty = match Model::declared_type(sc, name) {
            Some(t) => t,
            None => return throw("name error: variable not found"),
        };
        if ixs.is_empty() && !self.is_type(&ty, &rhs)? {
            return throw("type error: assignment type check failed");
        }
        let mut cur = Model::lookup(sc, name).unwrap();
        let r = self.set_index(&mut cur, ixs, Some(rhs), every);
        // in-place semantics: partial effects of a failed indexed assignment are kept
        Model::with_var(sc, name, &mut |_, slot| *slot = cur.clone());
        r?;
        if !ixs.is_empty() && !self.is_type(&ty, &cur)? {
            self.probe("late_type_check_fired");
            return throw("type error: LATE type check failed");
        }
        Ok(())
    }

    pub fn assign(&mut self, sc: &ScopeRef, l: &ELv, rt: Option<&Ty>, rhs: V) -> R<()> {
        match l {
            ELv::Underscore => {
                if let Some(ty) = rt {
                    if !self.is_type(ty, &rhs)? {
                        return throw("type error: assigning to underscore type mismatch");
                    }
                }
                Ok(())
            }
            ELv::Ident(name, ixs) => match rt {
                Some(ty) => {
                    if ixs.is_empty() {
                        self.insert_declare(sc, name, ty.clone(), rhs)
                    } else {
                        throw("name error: can't declare into index expression")
                    }
                }
                None => self.assign_respecting_type(sc, name, ixs, rhs, false),
            },
            ELv::Seq(ss, delimited) => {
                let rt2: Option<Ty> = if *delimited {
                    match rt {
                        Some(outer) => {
                            if !self.is_type(outer, &rhs)? {
                                return throw("type error: seq outside type mismatch");
                            }
                            Some(Ty::Any)
                        }
                        None => None,
                    }
                } else {
                    rt.cloned()
                };
                match &rhs {
                    V::List(xs) => self.assign_all(sc, ss, rt2.as_ref(), xs.clone()),
                    V::Dict(d) if d.entries.len() >= 2 => {
                        // the keys arrive in hash order: not predictable
                        unknown("unpacking a dict with several keys (hash order)")
                    }
                    V::Str(_) | V::Bytes(_) | V::Vector(_) | V::Dict(_) => {
                        let xs = self.iterate(&rhs, "unpack")?;
                        self.assign_all(sc, ss, rt2.as_ref(), xs)
                    }
                    V::Stream(s) => {
                        if Model::stream_is_infinite(s) {
                            throw("type error: can't unpack from infinite sequence")
                        } else {
                            let xs = self.force_stream(s)?;
                            self.assign_all(sc, ss, rt2.as_ref(), xs)
                        }
                    }
                    _ => throw("type error: unpacking failed: not iterable"),
                }
            }
            ELv::Annot(inner, ann) => match ann {
                None => self.assign(sc, inner, Some(&Ty::Any), rhs),
                Some(t) => {
                    let ty = self.to_type(t)?;
                    self.assign(sc, inner, Some(&ty), rhs)
                }
            },
            ELv::Default(inner, _) => self.assign(sc, inner, rt, rhs),
            ELv::Splat(_) => throw("type error: can't assign to raw splat"),
            ELv::Or(a, b) => match self.assign(sc, a, rt, rhs.clone()) {
                Ok(()) => Ok(()),
                Err(Ctl::Unknown(m)) => Err(Ctl::Unknown(m)),
                Err(Ctl::Fuel) => Err(Ctl::Fuel),
                Err(_) => self.assign(sc, b, rt, rhs),
            },
            ELv::And(a, b) => {
                self.assign(sc, a, rt, rhs.clone())?;
                self.assign(sc, b, rt, rhs)
            }
            ELv::Lit(v) => {
                if veq(v, &rhs) {
                    Ok(())
                } else {
                    throw("type error: literal pattern didn't match")
                }
            }
            ELv::DStruct(sid, args) => match rhs {
                V::Inst(s2, fields) if s2 == *sid => self.assign_all(sc, args, rt, fields),
                _ => throw("type error: destructuring structure failed"),
            },
            ELv::DBuiltin(name, args) => {
                // chained comparison pattern: the value (or, with several open positions, its
                // elements) fills the open positions, then the chain must hold
                if let Some(ops) = name.strip_prefix("cmp:") {
                    let ops: Vec<&str> = ops.split(' ').collect();
                    let slots = args.iter().filter(|a| !matches!(a, ELv::Lit(_))).count();
                    if slots == 0 {
                        return throw("argument error: chained comparison destructuring: all literals");
                    }
                    let rvalues = if slots == 1 {
                        vec![rhs]
                    } else {
                        if let V::Dict(d) = &rhs {
                            if d.entries.len() >= 2 {
                                return unknown("unpacking a dict with several keys (hash order)");
                            }
                        }
                        self.iterate(&rhs, "comparison unpacking")?
                    };
                    let mut it = rvalues.into_iter();
                    let mut filled = Vec::new();
                    for a in args.iter() {
                        match a {
                            ELv::Lit(v) => filled.push(v.clone()),
                            _ => match it.next() {
                                Some(v) => filled.push(v),
                                None => return throw("argument error: chained comparison ran out of values"),
                            },
                        }
                    }
                    if it.next().is_some() {
                        return throw("argument error: chained comparison: too many values");
                    }
                    for (i, op) in ops.iter().enumerate() {
                        let r = crate::builtins::call_builtin(self, sc, op, vec![filled[i].clone(), filled[i + 1].clone()])?;
                        if !self.truthy(&r)? {
                            return throw("value error: comparison destructure failed");
                        }
                    }
                    return self.assign_all(sc, args, rt, filled);
                }
                // patterns that invert a constructor
                let res: Vec<V> = match (name.as_str(), &rhs) {
                    ("append", V::List(xs)) | ("+.", V::List(xs)) => match xs.split_last() {
                        Some((last, rest)) => vec![V::List(rest.to_vec()), last.clone()],
                        None => return throw("value error: append destructured empty"),
                    },
                    (".+", V::List(xs)) => match xs.split_first() {
                        Some((first, rest)) => vec![first.clone(), V::List(rest.to_vec())],
                        None => return throw("value error: prepend destructured empty"),
                    },
                    ("append", V::Str(s)) | ("+.", V::Str(s)) => match s.chars().last() {
                        Some(c) => vec![V::Str(s[..s.len() - c.len_utf8()].to_string()), V::Str(c.to_string())],
                        None => return throw("value error: append destructured empty"),
                    },
                    (".+", V::Str(s)) => match s.chars().next() {
                        Some(c) => vec![V::Str(c.to_string()), V::Str(s[c.len_utf8()..].to_string())],
                        None => return throw("value error: prepend destructured empty"),
                    },
                    ("append", V::Vector(xs)) | ("+.", V::Vector(xs)) => match xs.split_last() {
                        Some((last, rest)) => vec![V::Vector(rest.to_vec()), last.clone()],
                        None => return throw("value error: append destructured empty"),
                    },
                    (".+", V::Vector(xs)) => match xs.split_first() {
                        Some((first, rest)) => vec![first.clone(), V::Vector(rest.to_vec())],
                        None => return throw("value error: prepend destructured empty"),
                    },
                    ("append", V::Bytes(xs)) | ("+.", V::Bytes(xs)) => match xs.split_last() {
                        Some((last, rest)) => vec![V::Bytes(rest.to_vec()), vint(*last as i64)],
                        None => return throw("value error: append destructured empty"),
                    },
                    (".+", V::Bytes(xs)) => match xs.split_first() {
                        Some((first, rest)) => vec![vint(*first as i64), V::Bytes(rest.to_vec())],
                        None => return throw("value error: prepend destructured empty"),
                    },
                    ("append", V::Dict(_)) | ("+.", V::Dict(_)) | (".+", V::Dict(_)) | ("append", V::Stream(_))
                    | ("+.", V::Stream(_)) | (".+", V::Stream(_)) => return unknown("non-list destructure"),
                    // a / b: numerator and denominator of an exact number
                    ("/", V::Int(n)) => vec![V::Int(n.clone()), vint(1)],
                    ("/", V::Rat(r)) => vec![V::Int(r.numer().clone()), V::Int(r.denom().clone())],
                    ("/", _) => return throw("value error: / destructured non-rational"),
                    ("append", _) | ("+.", _) | (".+", _) => return throw("type error: destructured non-seq"),
                    ("+", V::Int(r)) => {
                        if args.len() != 2 {
                            return throw("type error: + failed to destructure");
                        }
                        match (&args[0], &args[1]) {
                            (ELv::Lit(V::Int(a)), b) if !matches!(b, ELv::Lit(_)) => {
                                let diff = r - a;
                                if diff.is_negative() {
                                    return throw("value error: + computed negative");
                                }
                                vec![V::Int(a.clone()), V::Int(diff)]
                            }
                            (a, ELv::Lit(V::Int(b))) if !matches!(a, ELv::Lit(_)) => {
                                let diff = r - b;
                                if diff.is_negative() {
                                    return throw("value error: + computed negative");
                                }
                                vec![V::Int(diff), V::Int(b.clone())]
                            }
                            (ELv::Lit(_), ELv::Lit(_)) => return throw("type error: + failed to destructure"),
                            (ELv::Lit(_), _) | (_, ELv::Lit(_)) => return unknown("+ destructure with non-int literal"),
                            _ => return throw("type error: + failed to destructure"),
                        }
                    }
                    ("+", x) if is_num(x) => return unknown("+ destructure of non-int"),
                    ("+", _) => return throw("type error: + failed to destructure"),
                    ("-", V::Int(r)) => {
                        if args.len() != 1 {
                            return throw("type error: - can only destructure 1");
                        }
                        vec![V::Int(-r)]
                    }
                    ("-", x) if is_num(x) => {
                        if args.len() != 1 {
                            return throw("type error: - can only destructure 1");
                        }
                        vec![crate::builtins::call_builtin(self, sc, "-", vec![x.clone()])?]
                    }
                    ("-", x) if matches!(x, V::Vector(_)) => return unknown("- destructure of vector"),
                    // k * x / x * k: exact quotient by an integer literal
                    ("*", V::Int(r)) => {
                        if args.len() != 2 {
                            return throw("type error: * failed to destructure");
                        }
                        let quot = |r: &num::BigInt, a: &num::BigInt| -> R<V> {
                            if a.is_zero() {
                                return throw("value error: * destructured with a zero factor");
                            }
                            if !(r % a).is_zero() {
                                return throw("value error: * had remainder");
                            }
                            Ok(V::Int(num::Integer::div_floor(r, a)))
                        };
                        match (&args[0], &args[1]) {
                            (ELv::Lit(V::Int(a)), b) if !matches!(b, ELv::Lit(_)) => vec![V::Int(a.clone()), quot(r, a)?],
                            (a, ELv::Lit(V::Int(b))) if !matches!(a, ELv::Lit(_)) => vec![quot(r, b)?, V::Int(b.clone())],
                            (ELv::Lit(_), ELv::Lit(_)) => return throw("type error: * failed to destructure"),
                            (ELv::Lit(_), _) | (_, ELv::Lit(_)) => return unknown("* destructure with non-int literal"),
                            _ => return throw("type error: * failed to destructure"),
                        }
                    }
                    ("*", x) if is_num(x) => return unknown("* destructure of non-int"),
                    ("*", _) => return throw("type error: * failed to destructure"),
                    ("-", _) => {
                        if args.len() != 1 {
                            return throw("type error: - can only destructure 1");
                        }
                        return throw("argument error: destructuring - only accepts numbers");
                    }
                    _ => return unknown("builtin destructure"),
                };
                if res.len() == args.len() {
                    self.assign_all(sc, args, rt, res)
                } else {
                    throw("type error: destructure length didn't match")
                }
            }
        }
    }

    fn assign_all_basic(&mut self, sc: &ScopeRef, lhs: &[ELv], rt: Option<&Ty>, rhs: Vec<V>) -> R<()> {
        if lhs.len() == rhs.len() {
            for (l, r) in lhs.iter().zip(rhs.into_iter()) {
                self.assign(sc, l, rt, r)?;
            }
            Ok(())
        } else {
            throw("value error: can't unpack into mismatched length")
        }
    }

    fn assign_all(&mut self, sc: &ScopeRef, lhs: &[ELv], rt: Option<&Ty>, mut rhs: Vec<V>) -> R<()> {
        let rhs_len = rhs.len();
        // (index, inner, annotation on the splat if any)
        let mut splat: Option<(usize, &ELv, Option<&Option<V>>)> = None;
        let mut defaults: Vec<&Ex> = Vec::new();
        for (i, l) in lhs.iter().enumerate() {
            match l {
                ELv::Splat(inner) => {
                    if splat.is_some() {
                        return throw("syntax error: two splats");
                    }
                    splat = Some((i, &**inner, None));
                }
                ELv::Annot(mid, anno) => match &**mid {
                    ELv::Splat(inner) => {
                        if splat.is_some() {
                            return throw("syntax error: two splats");
                        }
                        splat = Some((i, &**inner, Some(anno)));
                    }
                    _ => {
                        if !defaults.is_empty() {
                            return throw("syntax error: no-default after default");
                        }
                    }
                },
                ELv::Default(_, d) => {
                    let prev = if splat.is_some() { i - 1 } else { i };
                    if rhs_len <= prev {
                        defaults.push(d);
                    }
                }
                _ => {
                    if !defaults.is_empty() {
                        return throw("syntax error: no-default after default");
                    }
                }
            }
        }
        match splat {
            Some((si, inner, anno)) => {
                for d in defaults {
                    let v = self.eval(sc, d)?;
                    rhs.push(v);
                }
                // positions after the splat take from the end
                let after = lhs.len() - si - 1;
                if rhs.len() < after || rhs.len() - after < si {
                    // the implementation computes `rhs.len() - lhs.len() + si + 1` in usize and
                    // drains: a short right-hand side must raise, not crash
                    return throw("value error: can't unpack into mismatched length (splat)");
                }
                let rrhs: Vec<V> = rhs.drain(rhs.len() - after..).collect();
                let srhs: Vec<V> = rhs.drain(si..).collect();
                self.assign_all_basic(sc, &lhs[..si], rt, rhs)?;
                match anno {
                    None => self.assign(sc, inner, rt, V::List(srhs))?,
                    Some(a) => {
                        let t = match a {
                            None => Ty::Any,
                            Some(t) => self.to_type(t)?,
                        };
                        self.assign(sc, inner, Some(&t), V::List(srhs))?
                    }
                }
                self.assign_all_basic(sc, &lhs[si + 1..], rt, rrhs)
            }
            None => {
                if lhs.len() == rhs_len + defaults.len() {
                    for d in defaults {
                        let v = self.eval(sc, d)?;
                        rhs.push(v);
                    }
                    self.assign_all_basic(sc, lhs, rt, rhs)
                } else {
                    throw("value error: can't unpack into mismatched length")
                }
            }
        }
    }

    fn assign_every(&mut self, sc: &ScopeRef, l: &ELv, rt: Option<&Ty>, rhs: V) -> R<()> {
        match l {
            ELv::Underscore => Ok(()),
            ELv::Ident(name, ixs) => match rt {
                Some(ty) => {
                    if ixs.is_empty() {
                        self.insert_declare(sc, name, ty.clone(), rhs)
                    } else {
                        throw("name error: can't declare into index expression")
                    }
                }
                None => self.assign_respecting_type(sc, name, ixs, rhs, true),
            },
            ELv::Seq(ss, _) => {
                for s in ss {
                    self.assign_every(sc, s, rt, rhs.clone())?;
                }
                Ok(())
            }
            ELv::Annot(inner, ann) => match ann {
                None => self.assign_every(sc, inner, Some(&Ty::Any), rhs),
                Some(t) => {
                    let ty = self.to_type(t)?;
                    self.assign_every(sc, inner, Some(&ty), rhs)
                }
            },
            ELv::And(a, b) => {
                self.assign_every(sc, a, rt, rhs.clone())?;
                self.assign_every(sc, b, rt, rhs)
            }
            ELv::Lit(v) => {
                if veq(v, &rhs) {
                    Ok(())
                } else {
                    throw("type error: literal pattern didn't match")
                }
            }
            ELv::Default(..) | ELv::Splat(_) | ELv::Or(..) | ELv::DStruct(..) => {
                throw("type error: can't assign-every")
            }
            ELv::DBuiltin(..) => unknown("builtin destructure"),
        }
    }

    fn drop_lhs(&mut self, sc: &ScopeRef, l: &ELv) -> R<()> {
        match l {
            ELv::Underscore => Ok(()),
            ELv::Ident(name, ixs) => {
                let mut cur = match Model::lookup(sc, name) {
                    Some(v) => v,
                    None => return throw("name error: variable not found"),
                };
                let r = self.set_index(&mut cur, ixs, None, true);
                Model::with_var(sc, name, &mut |_, slot| *slot = cur.clone());
                r
            }
            ELv::Seq(ss, _) => {
                for s in ss {
                    match s {
                        ELv::Splat(inner) => self.drop_lhs(sc, inner)?,
                        s => self.drop_lhs(sc, s)?,
                    }
                }
                Ok(())
            }
            ELv::Annot(..) => throw("syntax error: can't drop lhs with annotations"),
            ELv::Default(inner, _) => self.drop_lhs(sc, inner),
            ELv::Splat(_) => throw("type error: can't assign to raw splat"),
            ELv::Or(..) => throw("syntax error: can't drop lhs with or"),
            ELv::And(a, b) => {
                self.drop_lhs(sc, a)?;
                self.drop_lhs(sc, b)
            }
            ELv::Lit(_) => Ok(()),
            ELv::DStruct(_, vs) | ELv::DBuiltin(_, vs) => {
                for s in vs {
                    match s {
                        ELv::Splat(inner) => self.drop_lhs(sc, inner)?,
                        s => self.drop_lhs(sc, s)?,
                    }
                }
                Ok(())
            }
        }
    }

    fn flatten_ands<'a>(l: &'a ELv, out: &mut Vec<&'a ELv>) {
        match l {
            ELv::And(a, b) => {
                Model::flatten_ands(a, out);
                Model::flatten_ands(b, out);
            }
            l => out.push(l),
        }
    }

    fn op_assign(&mut self, sc: &ScopeRef, every: bool, pat: &Lv, op: &str, rhs: &Ex) -> R<V> {
        let p = self.eval_lv(sc, pat)?;
        if every {
            let opv = match Model::lookup(sc, op) {
                Some(v) => v,
                None => return throw("name error: no such variable"),
            };
            let f = match &opv {
                V::Func(f) => f.clone(),
                _ => return throw("type error: operator is not function"),
            };
            let rv = self.eval_rhs(sc, rhs)?;
            self.modify_every(sc, &p, &f, &rv)?;
            return Ok(V::Null);
        }
        if let ELv::And(..) = p {
            let mut items = Vec::new();
            Model::flatten_ands(&p, &mut items);
            let mut vals = Vec::new();
            for it in items.iter() {
                vals.push(self.lv_as_value(sc, it)?);
            }
            let opv = match Model::lookup(sc, op) {
                Some(v) => v,
                None => return throw("name error: no such variable"),
            };
            let f = match &opv {
                V::Func(f) => f.clone(),
                _ => return throw("type error: operator is not function"),
            };
            let rv = self.eval_rhs(sc, rhs)?;
            for (it, lv) in items.iter().zip(vals.into_iter()) {
                self.drop_lhs(sc, it)?;
                let combined = self.call_func_at(sc, &f, vec![lv, rv.clone()])?;
                self.assign(sc, it, None, combined)?;
            }
            return Ok(V::Null);
        }
        // what a user-written operator can observe of the half-assigned variable when the slot sits
        // under an ABSENT key of a defaulted dict (a null entry? no entry yet?) is not determined by
        // anything documented: the model declines
        if let (ELv::Ident(name, ixs), Some(V::Func(fv))) = (&p, Model::lookup(sc, op)) {
            if matches!(&*fv, FuncV::Closure { .. }) {
                if let Some(mut cur) = Model::lookup(sc, name) {
                    for ix in ixs.iter() {
                        let next = match (&cur, ix) {
                            (V::Dict(d), EIx::Index(k)) => match self.to_key(k.clone()) {
                                Ok(k) => match d.get(&k) {
                                    Some(v) => Some(v.clone()),
                                    None if d.default.is_some() => {
                                        return unknown("user operator on a slot under an absent key of a defaulted dict");
                                    }
                                    None => None,
                                },
                                Err(_) => None,
                            },
                            (V::List(xs), EIx::Index(i)) => {
                                Model::pythonic_index(xs.len(), i).ok().map(|j| xs[j].clone())
                            }
                            (V::Inst(_, fields), EIx::Index(V::Func(acc))) => match &**acc {
                                FuncV::Field(_, fi) => fields.get(*fi).cloned(),
                                _ => None,
                            },
                            _ => None,
                        };
                        match next {
                            Some(v) => cur = v,
                            None => break,
                        }
                    }
                }
            }
        }
        let lhs_value = self.lv_as_value(sc, &p)?;
        let opv = match Model::lookup(sc, op) {
            Some(v) => v,
            None => return throw("name error: no such variable"),
        };
        let f = match &opv {
            V::Func(f) => f.clone(),
            _ => return throw("type error: operator is not function"),
        };
        let rv = self.eval_rhs(sc, rhs)?;
        self.drop_lhs(sc, &p)?;
        let r = match self.call_func_at(sc, &f, vec![lhs_value, rv]) {
            Ok(combined) => self.assign(sc, &p, None, combined),
            Err(e) => Err(e),
        };
        if let Err(Ctl::Throw(_)) = &r {
            // the slot stays dropped (null) on HEAD; what it holds now is not pinned down
            let mut names = std::collections::BTreeSet::new();
            fn collect(l: &ELv, out: &mut std::collections::BTreeSet<String>) {
                match l {
                    ELv::Ident(n, _) => {
                        out.insert(n.clone());
                    }
                    ELv::Annot(i, _) | ELv::Default(i, _) | ELv::Splat(i) => collect(i, out),
                    ELv::Seq(xs, _) | ELv::DStruct(_, xs) | ELv::DBuiltin(_, xs) => xs.iter().for_each(|x| collect(x, out)),
                    ELv::Or(a, b) | ELv::And(a, b) => {
                        collect(a, out);
                        collect(b, out);
                    }
                    ELv::Underscore | ELv::Lit(_) => {}
                }
            }
            collect(&p, &mut names);
            self.poisoned.extend(names);
        }
        r?;
        Ok(V::Null)
    }

    fn modify_every_existing_index(
        &mut self,
        sc: &ScopeRef,
        x: &mut V,
        ixs: &[EIx],
        f: &Rc<FuncV>,
        rv: &V,
    ) -> R<()> {
        if let (V::Stream(s), false) = (&*x, ixs.is_empty()) {
            let forced = self.force_stream(&s.clone())?;
            *x = V::List(forced);
        }
        match ixs.split_first() {
            None => {
                let old = std::mem::replace(x, V::Null);
                *x = self.call_func_at(sc, f, vec![old, rv.clone()])?;
                Ok(())
            }
            Some((ix, rest)) => match (x, ix) {
                (V::List(xs), EIx::Index(i)) => {
                    let j = Model::pythonic_index(xs.len(), i)?;
                    self.modify_every_existing_index(sc, &mut xs[j], rest, f, rv)
                }
                (V::List(xs), EIx::Slice(a, b)) => {
                    let (lo, hi) = Model::pythonic_slice(xs.len(), a.as_ref(), b.as_ref())?;
                    for j in lo..hi {
                        self.modify_every_existing_index(sc, &mut xs[j], rest, f, rv)?;
                    }
                    Ok(())
                }
                (V::Dict(d), EIx::Index(i)) => {
                    let k = self.to_key(i.clone())?;
                    match d.find_w(&k) {
                        Some(j) => self.modify_every_existing_index(sc, &mut d.entries[j].1, rest, f, rv),
                        None => match d.default.clone() {
                            Some(dv) => {
                                d.entries.push((k, *dv));
                                let j = d.entries.len() - 1;
                                self.modify_every_existing_index(sc, &mut d.entries[j].1, rest, f, rv)
                            }
                            None => throw("key error: nothing at key"),
                        },
                    }
                }
                (V::Inst(sid, fields), EIx::Index(V::Func(ff))) => match &**ff {
                    FuncV::Field(s2, fi) => {
                        if sid == s2 {
                            self.modify_every_existing_index(sc, &mut fields[*fi], rest, f, rv)
                        } else {
                            throw("index error: wrong struct type")
                        }
                    }
                    _ => throw("type error: can't modify every index"),
                },
                _ => throw("type error: can't modify every index"),
            },
        }
    }

    fn modify_every(&mut self, sc: &ScopeRef, l: &ELv, f: &Rc<FuncV>, rv: &V) -> R<()> {
        match l {
            ELv::Ident(name, ixs) => {
                let mut old = match Model::lookup(sc, name) {
                    Some(v) => v,
                    None => return throw("name error: no such variable"),
                };
                if ixs.is_empty() {
                    let new = self.call_func_at(sc, f, vec![old, rv.clone()])?;
                    let ty = Model::declared_type(sc, name).unwrap();
                    if self.is_type(&ty, &new)? {
                        Model::with_var(sc, name, &mut |_, slot| *slot = new.clone());
                        Ok(())
                    } else {
                        throw("name error: modify every: type check failed")
                    }
                } else {
                    // works on a copy; a failure part-way leaves the variable untouched
                    self.modify_every_existing_index(sc, &mut old, ixs, f, rv)?;
                    self.assign_respecting_type(sc, name, &[], old, false)
                }
            }
            ELv::Seq(ss, _) => {
                for s in ss {
                    self.modify_every(sc, s, f, rv)?;
                }
                Ok(())
            }
            ELv::And(a, b) => {
                self.modify_every(sc, a, f, rv)?;
                self.modify_every(sc, b, f, rv)
            }
            _ => throw("type error: can't modify every"),
        }
    }

    // -----------------------------------------------------------------------------------------
    // calls

    pub fn call_func(&mut self, f: &Rc<FuncV>, args: Vec<V>) -> R<V> {
        let top = self.top.clone();
        self.call_func_at(&top, f, args)
    }

    /// `site` is the call-site scope (builtins such as `eval` evaluate there)
    pub fn call_func_at(&mut self, site: &ScopeRef, f: &Rc<FuncV>, args: Vec<V>) -> R<V> {
        self.tick()?;
        match &**f {
            FuncV::Closure { params, body, env } => {
                let inner = new_scope(Some(env.clone()));
                let mut ps = Vec::new();
                for p in params {
                    ps.push(self.eval_lv(&inner, p)?);
                }
                self.assign_all(&inner, &ps, Some(&Ty::Any), args)?;
                match self.eval(&inner, body) {
                    Err(Ctl::Return(v)) => Ok(v),
                    x => x,
                }
            }
            FuncV::Builtin(name) => crate::builtins::call_builtin(self, site, name, args),
            FuncV::Type(t) => self.call_type(t, args),
            FuncV::Field(sid, fi) => {
                if args.len() != 1 {
                    return throw("argument error: field accessor");
                }
                match &args[0] {
                    V::Inst(s2, fields) if s2 == sid => Ok(fields[*fi].clone()),
                    _ => throw("argument error: field of wrong struct"),
                }
            }
            FuncV::Memo(inner, table) => {
                let mut kargs = Vec::new();
                for a in args {
                    kargs.push(self.to_key(a)?);
                }
                {
                    let t = table.borrow();
                    for (k, v) in t.iter() {
                        if k.len() == kargs.len() && k.iter().zip(kargs.iter()).all(|(a, b)| key_eq(a, b)) {
                            return Ok(v.clone());
                        }
                    }
                }
                let r = self.call_func_at(site, inner, kargs.clone())?;
                table.borrow_mut().push((kargs, r.clone()));
                Ok(r)
            }
        }
    }

    fn call_type(&mut self, t: &Ty, mut args: Vec<V>) -> R<V> {
        match t {
            Ty::Struct(sid) => {
                let def = self.structs[*sid].clone();
                if args.len() > def.fields.len() {
                    // more arguments than fields: the instance is built as is
                    return unknown("struct call with too many arguments");
                }
                while args.len() < def.fields.len() {
                    match &def.fields[args.len()].1 {
                        None => return throw("argument error: struct construction: not enough arguments"),
                        Some(d) => args.push(d.clone()),
                    }
                }
                Ok(V::Inst(*sid, args))
            }
            _ => {
                if args.len() != 1 {
                    return throw("type error: expected one argument");
                }
                let a = args.pop().unwrap();
                self.call_type1(t, a)
            }
        }
    }

    fn call_type1(&mut self, t: &Ty, a: V) -> R<V> {
        match t {
            Ty::List => match a {
                V::List(xs) => Ok(V::List(xs)),
                V::Dict(_) => unknown("list of dict (hash order)"),
                a => Ok(V::List(self.iterate(&a, "list conversion")?)),
            },
            Ty::Str => match display(&a, false) {
                Some(s) => Ok(V::Str(s)),
                None => unknown("str of value the model cannot render"),
            },
            Ty::Int => match a {
                V::Int(n) => Ok(V::Int(n)),
                V::Str(s) => match s.parse::<BigInt>() {
                    Ok(n) => Ok(V::Int(n)),
                    Err(_) => throw("value error: can't parse"),
                },
                x if is_num(&x) => unknown("int of non-int number"),
                _ => throw("type error: int: expected number or string"),
            },
            Ty::Dict => match a {
                V::Dict(d) => Ok(V::Dict(d)),
                a => {
                    let items = self.iterate(&a, "dict conversion")?;
                    let mut d = Dict::new();
                    for p in items {
                        match p {
                            V::List(kv) if kv.len() == 2 => {
                                let k = self.to_key(kv[0].clone())?;
                                d.insert(k, kv[1].clone());
                            }
                            V::List(_) => return throw("type error: dict conversion: not pair"),
                            _ => return throw("type error: dict conversion: not list"),
                        }
                    }
                    Ok(V::Dict(d))
                }
            },
            Ty::Vector => match a {
                V::Vector(xs) => Ok(V::Vector(xs)),
                V::Dict(_) => unknown("vector of dict"),
                a => {
                    let xs = self.iterate(&a, "vector conversion")?;
                    if xs.iter().all(is_num) {
                        Ok(V::Vector(xs))
                    } else {
                        throw("type error: can't convert to vector")
                    }
                }
            },
            Ty::Bytes => match a {
                V::Bytes(b) => Ok(V::Bytes(b)),
                V::Str(s) => Ok(V::Bytes(s.into_bytes())),
                V::Dict(_) => unknown("bytes of dict"),
                a => {
                    let xs = self.iterate(&a, "bytes conversion")?;
                    let mut out = Vec::new();
                    for x in xs {
                        match &x {
                            V::Int(n) => match n.to_u8() {
                                Some(b) => out.push(b),
                                None => return throw("value error: can't convert number to byte"),
                            },
                            _ => return throw("value error: can't convert to byte"),
                        }
                    }
                    Ok(V::Bytes(out))
                }
            },
            Ty::Stream => match a {
                V::Stream(s) => Ok(V::Stream(s)),
                V::List(xs) | V::Vector(xs) => Ok(V::Stream(StreamV::Fin(xs))),
                V::Str(s) => Ok(V::Stream(StreamV::Fin(
                    s.chars().map(|c| V::Str(c.to_string())).collect(),
                ))),
                V::Bytes(b) => Ok(V::Stream(StreamV::Fin(b.iter().map(|x| vint(*x as i64)).collect()))),
                V::Dict(_) => unknown("stream of dict (hash order)"),
                _ => throw("type error: stream: expected seq"),
            },
            Ty::Type => Ok(V::Func(Rc::new(FuncV::Type(type_of(&a))))),
            Ty::Number => match a {
                x if is_num(&x) => Ok(x),
                _ => unknown("number conversion"),
            },
            Ty::Float | Ty::Rational => unknown("float/rational conversion"),
            _ => throw("type error: that type can't be called"),
        }
    }
}

/// precedence and right-associativity carried by a function value: builtins get theirs from the name
/// they are registered under, every other function value has precedence 0 and associates left
pub fn precedence_of(f: &Rc<FuncV>) -> Option<(f64, bool)> {
    match &**f {
        FuncV::Builtin(name) => {
            let p = name
                .chars()
                .map(|c| {
                    if c.is_alphanumeric() || c == '_' {
                        0.0
                    } else {
                        match c {
                            '=' | '<' | '>' => 1.0,
                            '$' => 2.0,
                            '|' => 3.0,
                            '+' | '-' | '~' => 4.0,
                            '*' | '/' | '%' | '&' => 5.0,
                            '^' => 6.0,
                            '!' | '?' => 7.0,
                            _ => 8.0,
                        }
                    }
                })
                .fold(f64::INFINITY, f64::min);
            if name == "<<" || name == ">>" {
                return None;
            }
            Some((p, name == "^" || name == ".+"))
        }
        FuncV::Closure { .. } | FuncV::Type(_) | FuncV::Field(..) | FuncV::Memo(..) => Some((0.0, false)),
    }
}

/// operators that merge with their neighbours into one n-ary application (comparisons, zip, ...)
fn is_comparison(f: &Rc<FuncV>) -> bool {
    matches!(&**f, FuncV::Builtin(name) if matches!(name.as_str(), "==" | "!=" | "<" | "<=" | ">" | ">="))
}

fn chains_with_neighbours(f: &Rc<FuncV>) -> bool {
    match &**f {
        FuncV::Builtin(name) => matches!(
            name.as_str(),
            "==" | "!=" | "<" | "<=" | ">" | ">=" | "zip" | "**" | "to" | "til" | "fold" | "by" | "with" | "from"
        ),
        _ => false,
    }
}

pub fn type_of(v: &V) -> Ty {
    match v {
        V::Null => Ty::Null,
        V::Int(_) => Ty::Int,
        V::Rat(_) => Ty::Rational,
        V::Float(_) => Ty::Float,
        V::Cx(..) => Ty::Complex,
        V::Str(_) => Ty::Str,
        V::Bytes(_) => Ty::Bytes,
        V::Vector(_) => Ty::Vector,
        V::List(_) => Ty::List,
        V::Dict(_) => Ty::Dict,
        V::Inst(..) => Ty::StructInstance,
        V::Func(f) => match &**f {
            FuncV::Type(_) => Ty::Type,
            _ => Ty::Func,
        },
        V::Stream(_) => Ty::Stream,
    }
}

pub enum LazyIter {
    Vec(std::vec::IntoIter<V>),
    Stream(StreamV),
}
impl LazyIter {
    pub fn next(&mut self, m: &mut Model) -> R<Option<V>> {
        match self {
            LazyIter::Vec(it) => Ok(it.next()),
            LazyIter::Stream(s) => match m.stream_next(s)? {
                None => Ok(None),
                Some((x, rest)) => {
                    *s = rest;
                    Ok(Some(x))
                }
            },
        }
    }
}

/// value of a literal key expression (ints and strings only)
pub fn num_lit_or_str(e: &Ex) -> V {
    match e {
        Ex::Num(n) => num_lit(n),
        Ex::Str(s) => V::Str(s.clone()),
        _ => V::Null,
    }
}

pub fn num_lit(n: &NumLit) -> V {
    match n {
        NumLit::Int(i) => V::Int(BigInt::from(*i)),
        NumLit::Big(s) => V::Int(s.parse::<BigInt>().unwrap()),
        NumLit::Pow2(k) => V::Int(BigInt::one() << (*k as usize)),
        NumLit::Float(b) => V::Float(f64::from_bits(*b)),
        NumLit::Rat(p, q) => V::Rat(BigRational::new(BigInt::from(*p), BigInt::from(*q))),
        NumLit::Cx(re, im) => V::Cx(*re as f64, *im as f64),
    }
}

// re-exports used by builtins.rs
pub fn throw_<T>(msg: &str) -> R<T> {
    throw(msg)
}
pub fn unknown_<T>(msg: &str) -> R<T> {
    unknown(msg)
}

#[allow(dead_code)]
fn _unused(_: &dyn Fn(&BigInt) -> bool) {
    let _ = BigInt::zero().is_negative();
    let _ = BigInt::zero().is_even();
}
