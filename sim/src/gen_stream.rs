// Profile `stream` (C11): stream variables from every constructor with small parameters, optionally
// dropped by a prefix and aliased, then a seed-chosen order of observations interleaved with alias
// creation and destruction. After every statement every stream variable is materialised passively
// (clone_box) and must be unchanged.

use crate::gen_common::*;
use crate::ir::*;
use crate::model::Model;
use crate::rng::Rng;
use crate::run::{RunCfg, Script};
use crate::val::*;

pub struct StreamOut {
    pub script: Script,
    pub kinds: Vec<String>,
    pub nontrivial: bool,
}

fn small_list(g: &mut Gen, max: usize) -> Ex {
    let n = g.rng.below(max + 1);
    Ex::List(
        (0..n)
            .map(|_| {
                if g.rng.chance(1, 5) {
                    Ex::Str(g.rng.pick(&["a", "b"]).to_string())
                } else {
                    int(g.rng.range(0, 5))
                }
            })
            .collect(),
    )
}

fn bound(g: &mut Gen) -> Ex {
    match g.rng.below(12) {
        0 => Ex::Num(NumLit::Pow2(63)),
        1 => bin(Ex::Num(NumLit::Pow2(63)), "+", int(g.rng.range(0, 4))),
        2 => Ex::Num(NumLit::Pow2(64)),
        _ => int(g.rng.range(-6, 8)),
    }
}

/// a finite-stream constructor expression
/// lazy zip of two or three streams, at least one of them finite (the zip ends with its shortest
/// member), optionally with a combining function
fn zip_ctor(g: &mut Gen) -> Ex {
    let n = 2 + g.rng.below(2);
    let fin_at = g.rng.below(n);
    let mut args: Vec<Ex> = Vec::new();
    for i in 0..n {
        if i == fin_at || g.rng.chance(2, 3) {
            args.push(simple_finite(g));
        } else {
            args.push(infinite_ctor(g));
        }
    }
    if g.rng.chance(1, 3) {
        let f = if n == 2 {
            Ex::Lambda(vec![lv("p"), lv("q")], Box::new(Ex::List(vec![var("q"), var("p")])))
        } else {
            Ex::Lambda(vec![Lv::Splat(Box::new(lv("ps")))], Box::new(call("len", vec![var("ps")])))
        };
        let at = g.rng.below(args.len() + 1);
        args.insert(at, f);
    }
    call("lazy_zip", args)
}

fn simple_finite(g: &mut Gen) -> Ex {
    match g.rng.below(3) {
        0 => Ex::Call(Box::new(var("to")), vec![int(g.rng.range(-2, 2)), int(g.rng.range(-1, 5))]),
        1 => call("stream", vec![small_list(g, 4)]),
        _ => {
            let a = int(g.rng.range(-4, 4));
            let b = int(g.rng.range(-4, 4));
            let st = if g.rng.chance(1, 2) { 2 } else { -1 };
            Ex::Call(Box::new(var("til")), vec![a, b, int(st)])
        }
    }
}

fn finite_ctor(g: &mut Gen) -> Ex {
    if g.rng.chance(1, 10) {
        return zip_ctor(g);
    }
    match g.rng.below(12) {
        0 | 1 => {
            // ranges with both step signs, near and beyond 2^63
            let a = bound(g);
            if g.rng.chance(1, 4) {
                // keep huge ranges short: end = start + small
                let len = int(g.rng.range(0, 6));
                let op = g.rng.pick(&["to", "til"]).to_string();
                return Ex::Call(Box::new(var(&op)), vec![a.clone(), bin(a, "+", len)]);
            }
            let b = int(g.rng.range(-6, 8));
            let a = int(g.rng.range(-6, 8));
            let op = g.rng.pick(&["to", "til"]).to_string();
            Ex::Call(Box::new(var(&op)), vec![a, b])
        }
        2 if g.rng.chance(1, 3) => {
            // a step that is itself a big integer: few elements, far apart
            let k = *g.rng.pick(&[62u32, 63, 64]);
            let step = if g.rng.chance(1, 3) {
                bin(int(0), "-", Ex::Num(NumLit::Pow2(k)))
            } else if g.rng.chance(1, 2) {
                bin(Ex::Num(NumLit::Pow2(k)), "-", int(1))
            } else {
                Ex::Num(NumLit::Pow2(k))
            };
            let neg = matches!(&step, Ex::Bin(a, _, _) if **a == int(0));
            let far = bin(Ex::Num(NumLit::Pow2(k)), "*", int(g.rng.range(0, 3)));
            let (a, b) = if neg { (far, int(g.rng.range(-2, 2))) } else { (int(g.rng.range(-2, 2)), far) };
            let op = g.rng.pick(&["to", "til"]).to_string();
            Ex::Call(Box::new(var(&op)), vec![a, b, step])
        }
        2 | 3 => {
            let a = int(g.rng.range(-8, 8));
            let b = int(g.rng.range(-8, 8));
            let mut st = g.rng.range(-3, 3);
            if st == 0 {
                st = if g.rng.chance(1, 2) { 1 } else { -2 };
            }
            let op = g.rng.pick(&["to", "til"]).to_string();
            Ex::Call(Box::new(var(&op)), vec![a, b, int(st)])
        }
        4 => call("stream", vec![small_list(g, 5)]),
        5 => call("stream", vec![Ex::Str(g.rng.pick(&["", "ab", "héy"]).to_string())]),
        6 => call("permutations", vec![small_list(g, 4)]),
        7 => {
            let l = small_list(g, 5);
            let k = int(g.rng.range(0, 6));
            call("combinations", vec![l, k])
        }
        8 => call("subsequences", vec![small_list(g, 4)]),
        9 => {
            let l = small_list(g, 3);
            let k = int(g.rng.range(0, 3));
            bin(l, "^^", k)
        }
        10 => {
            let base = Ex::Call(Box::new(var("to")), vec![int(g.rng.range(-2, 2)), int(g.rng.range(0, 7))]);
            let f = match g.rng.below(3) {
                0 => Ex::Lambda(vec![lv("x")], Box::new(bin(var("x"), "*", int(2)))),
                1 => Ex::Lambda(vec![lv("x")], Box::new(Ex::List(vec![var("x"), var("x")]))),
                _ => Ex::Lambda(vec![lv("x")], Box::new(bin(var("x"), "+", int(10)))),
            };
            call("lazy_map", vec![base, f])
        }
        _ => {
            let base = Ex::Call(Box::new(var("to")), vec![int(g.rng.range(-2, 2)), int(g.rng.range(0, 9))]);
            let f = match g.rng.below(3) {
                0 => var("even"),
                1 => Ex::Lambda(vec![lv("x")], Box::new(bin(var("x"), ">", int(2)))),
                _ => Ex::Lambda(vec![lv("x")], Box::new(int(0))),
            };
            call("lazy_filter", vec![base, f])
        }
    }
}

fn infinite_ctor(g: &mut Gen) -> Ex {
    match g.rng.below(6) {
        0 => call("iota", vec![int(g.rng.range(-3, 5))]),
        1 => call("iota", vec![bin(Ex::Num(NumLit::Pow2(63)), "-", int(g.rng.range(0, 3)))]),
        2 => call("repeat", vec![int(g.rng.range(0, 5))]),
        3 => {
            let mut l = small_list(g, 3);
            if let Ex::List(xs) = &l {
                if xs.is_empty() {
                    l = Ex::List(vec![int(7)]);
                }
            }
            call("cycle", vec![l])
        }
        4 => call(
            "iterate",
            vec![int(g.rng.range(0, 3)), Ex::Lambda(vec![lv("x")], Box::new(bin(var("x"), "*", int(2))))],
        ),
        _ => call(
            "lazy_map",
            vec![
                call("iota", vec![int(0)]),
                Ex::Lambda(vec![lv("x")], Box::new(bin(var("x"), "*", var("x")))),
            ],
        ),
    }
}

pub fn generate(seed: u64, fault_free: bool) -> StreamOut {
    let mut pre = Rng::new(seed ^ 0x57ea);
    let cfg = RunCfg {
        hash_seed: pre.next(),
        fuel: 100_000,
        seq_kind_tolerant: true,
        ..RunCfg::default()
    };
    let mut g = Gen::new(seed, cfg);
    let n_ops = 8 + g.rng.below(20);
    let mut nontrivial = false;
    let mut streams: Vec<(String, bool)> = Vec::new(); // (name, infinite)
    let mut acc_declared = false;

    // stream variables
    let n_streams = 1 + g.rng.below(3);
    for _ in 0..n_streams {
        let name = g.fresh("s");
        let inf = g.rng.chance(1, 4);
        let mut e = if inf { infinite_ctor(&mut g) } else { finite_ctor(&mut g) };
        if !fault_free && !inf && g.rng.chance(1, 6) {
            // F6: a lazy callback that fails at one element
            let k = g.rng.range(0, 4);
            let f = Ex::Lambda(
                vec![lv("x")],
                Box::new(Ex::If(
                    Box::new(bin(var("x"), "==", int(k))),
                    Box::new(Ex::Throw(Box::new(Ex::Str("boom".into())))),
                    Some(Box::new(var("x"))),
                )),
            );
            e = call("lazy_map", vec![Ex::Call(Box::new(var("to")), vec![int(0), int(5)]), f]);
        }
        // optionally dropped by a prefix
        if g.rng.chance(1, 3) {
            let k = int(g.rng.range(0, 4));
            e = if g.rng.chance(1, 2) {
                call("drop", vec![e, k])
            } else {
                Ex::Slice(Box::new(e), Some(Box::new(k)), None)
            };
        }
        match g.push("stream-declare", declare(&name, e), vec![]) {
            Ok(Ok(V::Null)) => {}
            Ok(_) => {}
            Err(_) => return finish(g, nontrivial),
        }
        // the declared value may not be a stream (e.g. a slice with both bounds) -- look
        match Model::lookup(&g.model.top, &name) {
            Some(V::Stream(s)) => streams.push((name, Model::stream_is_infinite(&s))),
            _ => {}
        }
    }
    if streams.is_empty() {
        return finish(g, nontrivial);
    }

    let mut attempts = 0;
    while g.script.stmts.len() < n_ops && attempts < 300 {
        attempts += 1;
        let (s, inf) = g.rng.pick(&streams).clone();
        let choice = g.rng.weighted(&[8, 10, 10, 8, 5, 5, 5, 4, 5, 6, 6, 4, 4, 3, 3, 4]);
        let r = match choice {
            0 => g.push("len", call("len", vec![var(&s)]), vec![]),
            1 => {
                let i = if inf { int(g.rng.range(0, 9)) } else { int(g.rng.range(-7, 9)) };
                nontrivial = true;
                g.push("index", Ex::Index(Box::new(var(&s)), Box::new(i)), vec![])
            }
            2 => {
                let (a, b) = if inf {
                    (Some(int(g.rng.range(0, 5))), Some(int(g.rng.range(0, 9))))
                } else {
                    let a = if g.rng.chance(1, 4) { None } else { Some(int(g.rng.range(-7, 8))) };
                    let b = if g.rng.chance(1, 4) { None } else { Some(int(g.rng.range(-7, 8))) };
                    (a, b)
                };
                nontrivial = true;
                let e = Ex::Slice(Box::new(var(&s)), a.map(Box::new), b.map(Box::new));
                if g.rng.chance(1, 2) {
                    g.push("slice", e, vec![])
                } else {
                    // keep the slice in a variable: an open-ended slice is a stream again
                    let name = g.fresh("s");
                    let r = g.push("slice-declare", declare(&name, e), vec![]);
                    if r.is_ok() {
                        if let Some(V::Stream(st)) = Model::lookup(&g.model.top, &name) {
                            streams.push((name, Model::stream_is_infinite(&st)));
                        }
                    }
                    r
                }
            }
            3 => {
                if inf {
                    continue;
                }
                nontrivial = true;
                g.push("list", call("list", vec![var(&s)]), vec![])
            }
            4 => {
                if inf {
                    continue;
                }
                g.push("reverse", call("reverse", vec![var(&s)]), vec![])
            }
            5 => {
                if inf {
                    g.push("first", call("first", vec![var(&s)]), vec![])
                } else {
                    let f = g.rng.pick(&["last", "first"]).to_string();
                    g.push("first-last", call(&f, vec![var(&s)]), vec![])
                }
            }
            6 => {
                if inf {
                    continue;
                }
                let x = if g.rng.chance(1, 3) { Ex::List(vec![int(1), int(2)]) } else { int(g.rng.range(-3, 8)) };
                g.push("in", bin(x, "in", var(&s)), vec![])
            }
            7 => {
                // truthiness
                let e = if g.rng.chance(1, 2) {
                    call("not", vec![var(&s)])
                } else {
                    Ex::If(Box::new(var(&s)), Box::new(int(1)), Some(Box::new(int(0))))
                };
                g.push("truthiness", e, vec![])
            }
            8 => {
                // iteration with a for loop (infinite streams: break)
                if !acc_declared {
                    if g.push("acc-declare", declare("acc", Ex::List(vec![])), vec![]).is_err() {
                        break;
                    }
                    acc_declared = true;
                }
                nontrivial = true;
                let body = if inf || g.rng.chance(1, 3) {
                    Ex::Seq(
                        vec![
                            Ex::If(
                                Box::new(bin(call("len", vec![var("acc")]), ">", int(g.rng.range(2, 12)))),
                                Box::new(Ex::Break(0, None)),
                                None,
                            ),
                            Ex::OpAssign(false, Box::new(lv("acc")), "append".into(), Box::new(var("x"))),
                        ],
                        false,
                    )
                } else {
                    Ex::OpAssign(false, Box::new(lv("acc")), "append".into(), Box::new(var("x")))
                };
                let r1 = g.push("acc-reset", Ex::Assign(false, Box::new(lv("acc")), Box::new(Ex::List(vec![]))), vec![]);
                if r1.is_err() {
                    break;
                }
                g.push(
                    "for",
                    Ex::For(vec![Clause::Each(lv("x"), var(&s))], Box::new(ForBody::Do(body))),
                    vec![],
                )
            }
            9 => {
                let k = int(g.rng.range(0, 6));
                let f = g.rng.pick(&["take", "drop"]).to_string();
                if inf && f == "drop" {
                    let name = g.fresh("s");
                    let r = g.push("drop-declare", declare(&name, call("drop", vec![var(&s), k])), vec![]);
                    if r.is_ok() {
                        if let Some(V::Stream(st)) = Model::lookup(&g.model.top, &name) {
                            streams.push((name, Model::stream_is_infinite(&st)));
                        }
                    }
                    r
                } else if f == "drop" && g.rng.chance(1, 2) {
                    let name = g.fresh("s");
                    let r = g.push("drop-declare", declare(&name, call("drop", vec![var(&s), k])), vec![]);
                    if r.is_ok() {
                        if let Some(V::Stream(st)) = Model::lookup(&g.model.top, &name) {
                            streams.push((name, Model::stream_is_infinite(&st)));
                        }
                    }
                    r
                } else {
                    g.push("take-drop", call(&f, vec![var(&s), k]), vec![])
                }
            }
            10 => {
                // alias creation: sharing decides whether a consumer advances in place or clones
                let name = g.fresh("s");
                let r = match g.rng.below(3) {
                    0 => {
                        let r = g.push("alias", declare(&name, var(&s)), vec![]);
                        if r.is_ok() {
                            streams.push((name, inf));
                        }
                        r
                    }
                    1 => g.push("alias-in-list", declare(&name, Ex::List(vec![var(&s), var(&s)])), vec![]),
                    _ => g.push("alias-closure", declare(&name, Ex::Lambda(vec![], Box::new(var(&s)))), vec![]),
                };
                nontrivial = true;
                r
            }
            11 => {
                // alias destruction: overwrite an alias so the original is uniquely held again
                if streams.len() < 2 {
                    continue;
                }
                let (victim, _) = streams.remove(g.rng.below(streams.len()));
                g.push("alias-drop", Ex::Assign(false, Box::new(lv(&victim)), Box::new(Ex::Null)), vec![])
            }
            12 => {
                if inf {
                    continue;
                }
                // unpacking
                match Model::lookup(&g.model.top, &s) {
                    Some(V::Stream(st)) => {
                        let n = g.model.force_stream(&st).map(|v| v.len()).unwrap_or(99);
                        if n > 4 {
                            continue;
                        }
                        let k = if fault_free || g.rng.chance(2, 3) { n } else { n + 1 };
                        let names: Vec<String> = (0..k).map(|_| g.fresh("u")).collect();
                        if k == 0 {
                            continue;
                        }
                        let pat = Lv::Seq(
                            names.iter().map(|n| Lv::Annot(Box::new(lv(n)), None)).collect(),
                            false,
                        );
                        g.push("unpack", Ex::Assign(false, Box::new(pat), Box::new(var(&s))), vec![])
                    }
                    _ => continue,
                }
            }
            13 => {
                if inf {
                    continue;
                }
                let f = Ex::Lambda(vec![lv("x")], Box::new(Ex::List(vec![var("x")])));
                g.push("map", call("map", vec![var(&s), f]), vec![])
            }
            14 => {
                if inf {
                    continue;
                }
                g.push("set", call("len", vec![call("set", vec![var(&s)])]), vec![])
            }
            _ => {
                // pass the stream to a user function that consumes it
                let f = Ex::Lambda(vec![lv("t")], Box::new(Ex::Index(Box::new(var("t")), Box::new(int(0)))));
                g.push("pass-to-function", Ex::Call(Box::new(f), vec![var(&s)]), vec![])
            }
        };
        if r.is_err() {
            break;
        }
    }
    finish(g, nontrivial)
}

fn finish(mut g: Gen, nontrivial: bool) -> StreamOut {
    StreamOut {
        script: g.take_script(),
        kinds: std::mem::take(&mut g.kinds),
        nontrivial,
    }
}
