// Free-variable analysis of an IR expression by the *evaluator's* scope rules (DESIGN appendix A.2):
// new scope per closure call, per for-clause iteration, per while iteration, per switch arm, per
// catch clause; none for `;`-sequences, if/else, try bodies, and/or/coalesce. Used by the model's
// `freeze`.

use crate::ir::*;
use std::collections::BTreeSet;

#[derive(Default)]
pub struct Analysis {
    scopes: Vec<BTreeSet<String>>,
    /// names declared on some paths only (inside an if-branch, the right side of and/or, a try body)
    maybe: Vec<BTreeSet<String>>,
    cond_depth: usize,
    real_depth: usize,
    pub free_read: BTreeSet<String>,
    pub free_written: BTreeSet<String>,
    /// the analysis cannot decide statically (conditional declaration used later, eval of text)
    pub ambiguous: Option<String>,
    /// a declaration at the top level of the expression (outside every inner scope)
    pub declares_at_top: bool,
    /// names declared in some inner scope of the expression
    pub declared_inner: BTreeSet<String>,
}

impl Analysis {
    pub fn of(e: &Ex) -> Analysis {
        let mut a = Analysis::default();
        a.scopes.push(BTreeSet::new());
        a.maybe.push(BTreeSet::new());
        a.visit(e);
        a
    }

    fn bound(&self, n: &str) -> bool {
        self.scopes.iter().any(|s| s.contains(n))
    }
    fn maybe_bound(&self, n: &str) -> bool {
        self.maybe.iter().any(|s| s.contains(n))
    }
    fn push(&mut self) {
        self.scopes.push(BTreeSet::new());
        self.maybe.push(BTreeSet::new());
        self.real_depth += 1;
    }
    fn pop(&mut self) {
        self.scopes.pop();
        self.maybe.pop();
        self.real_depth -= 1;
    }
    fn declare(&mut self, n: &str) {
        if self.real_depth == 0 {
            self.declares_at_top = true;
        } else {
            self.declared_inner.insert(n.to_string());
        }
        self.scopes.last_mut().unwrap().insert(n.to_string());
    }
    fn read(&mut self, n: &str) {
        if self.bound(n) {
            return;
        }
        if self.maybe_bound(n) {
            self.ambiguous = Some(format!("{} is declared on some paths only", n));
        }
        self.free_read.insert(n.to_string());
    }
    fn write(&mut self, n: &str) {
        if self.bound(n) {
            return;
        }
        if self.maybe_bound(n) {
            self.ambiguous = Some(format!("{} is declared on some paths only", n));
        }
        self.free_written.insert(n.to_string());
    }

    /// a region that may or may not run (or may be left half-way): what it declares is visible
    /// inside it, and only *maybe* declared afterwards
    /// like `cond`, and returns what the region declares at its own top level
    fn cond_collect(&mut self, e: &Ex) -> BTreeSet<String> {
        self.cond_depth += 1;
        self.scopes.push(BTreeSet::new());
        self.maybe.push(BTreeSet::new());
        self.visit(e);
        let declared = self.scopes.pop().unwrap();
        let maybe_inner = self.maybe.pop().unwrap();
        let m = self.maybe.last_mut().unwrap();
        m.extend(declared.iter().cloned());
        m.extend(maybe_inner);
        self.cond_depth -= 1;
        declared
    }

    fn cond(&mut self, e: &Ex) {
        self.cond_depth += 1;
        self.scopes.push(BTreeSet::new());
        self.maybe.push(BTreeSet::new());
        self.visit(e);
        let declared = self.scopes.pop().unwrap();
        let maybe_inner = self.maybe.pop().unwrap();
        let m = self.maybe.last_mut().unwrap();
        m.extend(declared);
        m.extend(maybe_inner);
        self.cond_depth -= 1;
    }

    fn visit_ix(&mut self, ix: &Ix) {
        match ix {
            Ix::Index(e) => self.visit(e),
            Ix::Slice(a, b) => {
                if let Some(a) = a {
                    self.visit(a);
                }
                if let Some(b) = b {
                    self.visit(b);
                }
            }
        }
    }

    /// expressions inside a pattern that are evaluated when the pattern is evaluated (before any
    /// name of the pattern is bound): index expressions, annotations, literals, destructuring callees
    fn pattern_exprs(&mut self, l: &Lv) {
        match l {
            Lv::Underscore => {}
            Lv::Ident(_, ixs) => {
                for ix in ixs {
                    self.visit_ix(ix);
                }
            }
            Lv::Annot(inner, t) => {
                self.pattern_exprs(inner);
                if let Some(t) = t {
                    self.visit(t);
                }
            }
            // defaults are evaluated later (when needed), still before the names are visible to them
            Lv::Default(inner, d) => {
                self.pattern_exprs(inner);
                self.visit(d);
            }
            Lv::Seq(xs, _) => {
                for x in xs {
                    self.pattern_exprs(x);
                }
            }
            Lv::Splat(inner) => self.pattern_exprs(inner),
            Lv::Or(a, b) | Lv::And(a, b) => {
                self.pattern_exprs(a);
                self.pattern_exprs(b);
            }
            Lv::Lit(e) => self.visit(e),
            Lv::Destructure(f, args) => {
                self.visit(f);
                for a in args {
                    self.pattern_exprs(a);
                }
            }
            Lv::Cmp(args, ops) => {
                for o in ops {
                    self.read(o);
                }
                for a in args {
                    self.pattern_exprs(a);
                }
            }
        }
    }

    /// bind every plain name of a pattern (`declaring`: parameters, loop variables, switch and catch
    /// patterns always declare; in assignments only annotated names do, the others are written)
    fn pattern_names(&mut self, l: &Lv, declaring: bool) {
        match l {
            Lv::Underscore | Lv::Lit(_) => {}
            Lv::Ident(n, ixs) => {
                if declaring && ixs.is_empty() {
                    self.declare(n);
                } else {
                    self.write(n);
                }
            }
            Lv::Annot(inner, _) => self.pattern_names(inner, true),
            Lv::Default(inner, _) => self.pattern_names(inner, declaring),
            Lv::Seq(xs, _) => {
                for x in xs {
                    self.pattern_names(x, declaring);
                }
            }
            Lv::Splat(inner) => self.pattern_names(inner, declaring),
            Lv::Or(a, b) | Lv::And(a, b) => {
                self.pattern_names(a, declaring);
                self.pattern_names(b, declaring);
            }
            Lv::Destructure(_, args) | Lv::Cmp(args, _) => {
                for a in args {
                    self.pattern_names(a, declaring);
                }
            }
        }
    }

    pub fn visit(&mut self, e: &Ex) {
        match e {
            // (a negative integer literal is written `(0-n)` and so mentions `-`)
            Ex::Num(NumLit::Int(i)) if *i < 0 => self.read("-"),
            Ex::Null | Ex::Num(_) | Ex::Str(_) => {}
            Ex::Var(n) => self.read(n),
            Ex::List(xs) | Ex::CommaSeq(xs) => {
                for x in xs {
                    self.visit(x);
                }
            }
            Ex::Dict(d, kvs) => {
                if let Some(d) = d {
                    self.visit(d);
                }
                for (k, v) in kvs {
                    self.visit(k);
                    if let Some(v) = v {
                        self.visit(v);
                    }
                }
            }
            Ex::Index(x, i) => {
                self.visit(x);
                self.visit(i);
            }
            Ex::Slice(x, a, b) => {
                self.visit(x);
                if let Some(a) = a {
                    self.visit(a);
                }
                if let Some(b) = b {
                    self.visit(b);
                }
            }
            Ex::Call(f, args) => {
                self.visit(f);
                for a in args {
                    self.visit(a);
                }
            }
            Ex::Splat(x) | Ex::Throw(x) | Ex::Freeze(x) => self.visit(x),
            Ex::Bin(l, op, r) => {
                self.visit(l);
                self.read(op);
                self.visit(r);
            }
            Ex::Chain(first, rest) => {
                self.visit(first);
                for (op, x) in rest {
                    self.read(op);
                    self.visit(x);
                }
            }
            Ex::Update(x, kvs) => {
                self.visit(x);
                for (k, v) in kvs {
                    self.visit(k);
                    self.visit(v);
                }
            }
            Ex::And(a, b) | Ex::Or(a, b) | Ex::Coalesce(a, b) => {
                self.visit(a);
                self.cond(b);
            }
            Ex::Seq(xs, _) => {
                for x in xs {
                    self.visit(x);
                }
            }
            Ex::If(c, a, b) => {
                self.visit(c);
                match b {
                    None => self.cond(a),
                    Some(b) => {
                        // what BOTH branches declare (at their own top level) is declared at every
                        // point after the `if` that control can reach
                        let da = self.cond_collect(a);
                        let db = self.cond_collect(b);
                        let both: Vec<String> = da.intersection(&db).cloned().collect();
                        for n in both {
                            if let Some(m) = self.maybe.last_mut() {
                                m.remove(&n);
                            }
                            self.declare(&n);
                        }
                    }
                }
            }
            Ex::While(c, b) => {
                self.push();
                self.visit(c);
                self.visit(b);
                self.pop();
            }
            Ex::For(clauses, body) => {
                let mut pushed = 0;
                for c in clauses {
                    match c {
                        Clause::Each(p, e) | Clause::Pairs(p, e) | Clause::Decl(p, e) => {
                            self.visit(e);
                            self.push();
                            pushed += 1;
                            self.pattern_exprs(p);
                            self.pattern_names(p, true);
                        }
                        Clause::Guard(g) => self.visit(g),
                    }
                }
                match &**body {
                    ForBody::Do(b) => self.visit(b),
                    ForBody::Yield(b, into) => {
                        self.visit(b);
                        if let Some(f) = into {
                            self.visit(f);
                        }
                    }
                    ForBody::YieldItem(k, v, into) => {
                        self.visit(k);
                        self.visit(v);
                        if let Some(f) = into {
                            self.visit(f);
                        }
                    }
                }
                for _ in 0..pushed {
                    self.pop();
                }
            }
            Ex::Break(_, v) | Ex::Return(v) => {
                if let Some(v) = v {
                    self.visit(v);
                }
            }
            Ex::Continue(_) => {}
            Ex::Try(body, pat, handler) => {
                // the body shares the current scope; what it declares before a throw is conditional
                // -- except leading declarations of a plain number literal, which cannot fail (or
                // fail only because the name is declared already)
                let infallible = |x: &Ex| match x {
                    Ex::Assign(false, l, rhs) => {
                        matches!(&**l, Lv::Annot(inner, None) if matches!(&**inner, Lv::Ident(_, ixs) if ixs.is_empty()))
                            && matches!(&**rhs, Ex::Num(_))
                    }
                    _ => false,
                };
                match &**body {
                    Ex::Seq(xs, trailing) if xs.first().map_or(false, infallible) => {
                        let n = xs.iter().take_while(|x| infallible(x)).count();
                        for x in &xs[..n] {
                            self.visit(x);
                        }
                        if n < xs.len() {
                            self.cond(&Ex::Seq(xs[n..].to_vec(), *trailing));
                        }
                    }
                    _ => self.cond(body),
                }
                self.push();
                self.pattern_exprs(pat);
                self.pattern_names(pat, true);
                self.visit(handler);
                self.pop();
            }
            Ex::Lambda(params, body) => {
                self.push();
                let saved = self.cond_depth;
                self.cond_depth = 0;
                // (real_depth counts the lambda's scope: declarations in its body are not top-level)
                for p in params {
                    self.pattern_exprs(p);
                }
                for p in params {
                    self.pattern_names(p, true);
                }
                self.visit(body);
                self.cond_depth = saved;
                self.pop();
            }
            Ex::Switch(scrut, arms) => {
                self.visit(scrut);
                for (p, b) in arms {
                    self.push();
                    self.pattern_exprs(p);
                    self.pattern_names(p, true);
                    self.visit(b);
                    self.pop();
                }
            }
            Ex::Assign(_, l, rhs) => {
                self.pattern_exprs(l);
                self.visit(rhs);
                self.pattern_names(l, false);
            }
            Ex::OpAssign(_, l, op, rhs) => {
                self.pattern_exprs(l);
                self.read(op);
                self.visit(rhs);
                self.pattern_names(l, false);
            }
            Ex::Pop(l) | Ex::Remove(l) | Ex::Consume(l) => {
                self.pattern_exprs(l);
                self.pattern_names(l, false);
            }
            Ex::Swap(a, b) => {
                self.pattern_exprs(a);
                self.pattern_exprs(b);
                self.pattern_names(a, false);
                self.pattern_names(b, false);
            }
            Ex::StructDef(name, fields) => {
                for (_, d) in fields {
                    if let Some(d) = d {
                        self.visit(d);
                    }
                }
                self.declare(name);
                for (f, _) in fields {
                    self.declare(f);
                }
            }
            Ex::EvalOf(_) | Ex::EvalText(_) => {
                self.ambiguous = Some("eval inside the expression".to_string());
            }
        }
    }
}

// ---------------------------------------------------------------------------------------------
// write sets (for the cancellation fault): every variable name a statement may assign or declare

fn lv_targets(l: &Lv, out: &mut BTreeSet<String>) {
    match l {
        Lv::Underscore | Lv::Lit(_) => {}
        Lv::Ident(n, _) => {
            out.insert(n.clone());
        }
        Lv::Annot(inner, _) | Lv::Default(inner, _) | Lv::Splat(inner) => lv_targets(inner, out),
        Lv::Seq(xs, _) => {
            for x in xs {
                lv_targets(x, out);
            }
        }
        Lv::Or(a, b) | Lv::And(a, b) => {
            lv_targets(a, out);
            lv_targets(b, out);
        }
        Lv::Destructure(_, args) | Lv::Cmp(args, _) => {
            for a in args {
                lv_targets(a, out);
            }
        }
    }
}

/// names written anywhere in `e`; with `only_in_lambdas` only the writes inside lambda bodies
pub fn writes(e: &Ex, only_in_lambdas: bool) -> BTreeSet<String> {
    let mut out = BTreeSet::new();
    collect_writes(e, !only_in_lambdas, &mut out);
    out
}

/// does the expression call anything (then closures defined earlier may run)
pub fn contains_call(e: &Ex) -> bool {
    let mut found = false;
    walk(e, &mut |x| {
        if matches!(x, Ex::Call(..) | Ex::Bin(..) | Ex::Chain(..) | Ex::OpAssign(..)) {
            found = true;
        }
    });
    found
}

fn walk(e: &Ex, f: &mut dyn FnMut(&Ex)) {
    f(e);
    match e {
        Ex::Null | Ex::Num(_) | Ex::Str(_) | Ex::Var(_) | Ex::Continue(_) | Ex::EvalText(_) => {}
        Ex::List(xs) | Ex::CommaSeq(xs) | Ex::Seq(xs, _) => xs.iter().for_each(|x| walk(x, f)),
        Ex::Dict(d, kvs) => {
            if let Some(d) = d {
                walk(d, f);
            }
            for (k, v) in kvs {
                walk(k, f);
                if let Some(v) = v {
                    walk(v, f);
                }
            }
        }
        Ex::Index(a, b) | Ex::And(a, b) | Ex::Or(a, b) | Ex::Coalesce(a, b) | Ex::While(a, b) => {
            walk(a, f);
            walk(b, f);
        }
        Ex::Bin(a, _, b) => {
            walk(a, f);
            walk(b, f);
        }
        Ex::Slice(x, a, b) => {
            walk(x, f);
            if let Some(a) = a {
                walk(a, f);
            }
            if let Some(b) = b {
                walk(b, f);
            }
        }
        Ex::Call(g, args) => {
            walk(g, f);
            args.iter().for_each(|x| walk(x, f));
        }
        Ex::Splat(x) | Ex::Throw(x) | Ex::Freeze(x) | Ex::EvalOf(x) => walk(x, f),
        Ex::Chain(first, rest) => {
            walk(first, f);
            rest.iter().for_each(|(_, x)| walk(x, f));
        }
        Ex::Update(x, kvs) => {
            walk(x, f);
            for (k, v) in kvs {
                walk(k, f);
                walk(v, f);
            }
        }
        Ex::If(c, a, b) => {
            walk(c, f);
            walk(a, f);
            if let Some(b) = b {
                walk(b, f);
            }
        }
        Ex::For(clauses, body) => {
            for c in clauses {
                match c {
                    Clause::Each(_, e) | Clause::Pairs(_, e) | Clause::Decl(_, e) | Clause::Guard(e) => walk(e, f),
                }
            }
            match &**body {
                ForBody::Do(b) => walk(b, f),
                ForBody::Yield(b, into) => {
                    walk(b, f);
                    if let Some(i) = into {
                        walk(i, f);
                    }
                }
                ForBody::YieldItem(k, v, into) => {
                    walk(k, f);
                    walk(v, f);
                    if let Some(i) = into {
                        walk(i, f);
                    }
                }
            }
        }
        Ex::Break(_, v) | Ex::Return(v) => {
            if let Some(v) = v {
                walk(v, f);
            }
        }
        Ex::Try(a, _, b) => {
            walk(a, f);
            walk(b, f);
        }
        Ex::Lambda(_, body) => walk(body, f),
        Ex::Switch(s, arms) => {
            walk(s, f);
            arms.iter().for_each(|(_, b)| walk(b, f));
        }
        Ex::Assign(_, _, rhs) | Ex::OpAssign(_, _, _, rhs) => walk(rhs, f),
        Ex::Pop(_) | Ex::Remove(_) | Ex::Consume(_) | Ex::Swap(..) => {}
        Ex::StructDef(_, fields) => {
            for (_, d) in fields {
                if let Some(d) = d {
                    walk(d, f);
                }
            }
        }
    }
}

fn collect_writes(e: &Ex, active: bool, out: &mut BTreeSet<String>) {
    // `active`: writes at this position count
    match e {
        Ex::Lambda(params, body) => {
            // parameters are locals of the call; body writes count from here on
            let _ = params;
            let mut inner = BTreeSet::new();
            collect_writes(body, true, &mut inner);
            out.extend(inner);
        }
        Ex::Assign(_, l, rhs) => {
            if active {
                lv_targets(l, out);
            }
            collect_writes(rhs, active, out);
        }
        Ex::OpAssign(_, l, _, rhs) => {
            if active {
                lv_targets(l, out);
            }
            collect_writes(rhs, active, out);
        }
        Ex::Pop(l) | Ex::Remove(l) | Ex::Consume(l) => {
            if active {
                lv_targets(l, out);
            }
        }
        Ex::Swap(a, b) => {
            if active {
                lv_targets(a, out);
                lv_targets(b, out);
            }
        }
        Ex::StructDef(name, fields) => {
            if active {
                out.insert(name.clone());
                for (f, _) in fields {
                    out.insert(f.clone());
                }
            }
        }
        Ex::For(clauses, body) => {
            for c in clauses {
                match c {
                    Clause::Each(_, x) | Clause::Pairs(_, x) | Clause::Decl(_, x) | Clause::Guard(x) => {
                        collect_writes(x, active, out)
                    }
                }
            }
            match &**body {
                ForBody::Do(b) => collect_writes(b, active, out),
                ForBody::Yield(b, into) => {
                    collect_writes(b, active, out);
                    if let Some(i) = into {
                        collect_writes(i, active, out);
                    }
                }
                ForBody::YieldItem(k, v, into) => {
                    collect_writes(k, active, out);
                    collect_writes(v, active, out);
                    if let Some(i) = into {
                        collect_writes(i, active, out);
                    }
                }
            }
        }
        other => {
            let (children, _) = children_of(other);
            for c in children {
                collect_writes(&c, active, out);
            }
        }
    }
}

fn children_of(e: &Ex) -> (Vec<Ex>, ()) {
    let mut out = Vec::new();
    match e {
        Ex::List(xs) | Ex::CommaSeq(xs) | Ex::Seq(xs, _) => out.extend(xs.iter().cloned()),
        Ex::Dict(d, kvs) => {
            if let Some(d) = d {
                out.push((**d).clone());
            }
            for (k, v) in kvs {
                out.push(k.clone());
                if let Some(v) = v {
                    out.push(v.clone());
                }
            }
        }
        Ex::Index(a, b) | Ex::And(a, b) | Ex::Or(a, b) | Ex::Coalesce(a, b) | Ex::While(a, b) | Ex::Bin(a, _, b) => {
            out.push((**a).clone());
            out.push((**b).clone());
        }
        Ex::Slice(x, a, b) => {
            out.push((**x).clone());
            if let Some(a) = a {
                out.push((**a).clone());
            }
            if let Some(b) = b {
                out.push((**b).clone());
            }
        }
        Ex::Call(g, args) => {
            out.push((**g).clone());
            out.extend(args.iter().cloned());
        }
        Ex::Splat(x) | Ex::Throw(x) | Ex::Freeze(x) | Ex::EvalOf(x) => out.push((**x).clone()),
        Ex::Chain(first, rest) => {
            out.push((**first).clone());
            out.extend(rest.iter().map(|(_, x)| x.clone()));
        }
        Ex::Update(x, kvs) => {
            out.push((**x).clone());
            for (k, v) in kvs {
                out.push(k.clone());
                out.push(v.clone());
            }
        }
        Ex::If(c, a, b) => {
            out.push((**c).clone());
            out.push((**a).clone());
            if let Some(b) = b {
                out.push((**b).clone());
            }
        }
        Ex::Break(_, Some(v)) | Ex::Return(Some(v)) => out.push((**v).clone()),
        Ex::Try(a, _, b) => {
            out.push((**a).clone());
            out.push((**b).clone());
        }
        Ex::Switch(s, arms) => {
            out.push((**s).clone());
            out.extend(arms.iter().map(|(_, b)| b.clone()));
        }
        _ => {}
    }
    (out, ())
}

/// names written by lambda bodies in `e` that are not local to that lambda (outer variables and
/// cells captured from an enclosing scope)
pub fn lambda_free_writes(e: &Ex) -> BTreeSet<String> {
    let mut out = BTreeSet::new();
    walk(e, &mut |x| {
        if let Ex::Lambda(..) = x {
            let a = Analysis::of(x);
            out.extend(a.free_written.iter().cloned());
        }
    });
    out
}

/// closure-local cells: names that a lambda in `e` writes without owning them and that are declared
/// in an inner scope of `e` (a captured variable of an enclosing loop iteration or call). Name
/// based and therefore conservative.
pub fn hidden_cells(e: &Ex) -> BTreeSet<String> {
    let a = Analysis::of(e);
    lambda_free_writes(e).intersection(&a.declared_inner).cloned().collect()
}

/// the plain names a pattern mentions as targets
pub fn lv_names(l: &Lv) -> Vec<String> {
    let mut out = BTreeSet::new();
    lv_targets(l, &mut out);
    out.into_iter().collect()
}
