// Observation of the implementation's state: serialise an `Obj` into the same canonical text the
// model produces (val::canon). Written against the public data types only.

use noulith::nnum::NNum;
use noulith::{key_to_obj, Func, Obj, Seq};

pub const STREAM_BOUND: usize = 12;

fn canon_f64(f: f64, out: &mut String) {
    if f.is_nan() {
        out.push_str("NaN");
    } else {
        out.push_str(&format!("{:016x}", f.to_bits()));
    }
}

fn canon_num(n: &NNum, out: &mut String) {
    match n {
        NNum::Int(i) => {
            out.push('i');
            out.push_str(&i.to_bigint().to_string());
        }
        NNum::Rational(r) => {
            out.push('r');
            out.push_str(&r.numer().to_string());
            out.push('/');
            out.push_str(&r.denom().to_string());
        }
        NNum::Float(f) => {
            out.push('f');
            canon_f64(*f, out);
        }
        NNum::Complex(z) => {
            out.push('c');
            canon_f64(z.re, out);
            out.push(',');
            canon_f64(z.im, out);
        }
    }
}

fn canon_f64_class(f: f64, out: &mut String) {
    if f.is_nan() {
        out.push_str("NaN");
    } else if f.is_infinite() {
        out.push_str(if f > 0.0 { "+inf" } else { "-inf" });
    } else {
        let q = num::BigRational::from_float(f).unwrap();
        out.push_str(&q.numer().to_string());
        out.push('/');
        out.push_str(&q.denom().to_string());
    }
}

/// a number up to `==`: exact value whatever the level or representation (mirrors val::canon_key)
fn canon_num_class(n: &NNum, out: &mut String) {
    out.push('n');
    match n {
        NNum::Int(i) => {
            out.push_str(&i.to_bigint().to_string());
            out.push_str("/1");
        }
        NNum::Rational(r) => {
            out.push_str(&r.numer().to_string());
            out.push('/');
            out.push_str(&r.denom().to_string());
        }
        NNum::Float(f) => canon_f64_class(*f, out),
        NNum::Complex(z) => {
            if z.re.is_nan() || z.im.is_nan() {
                out.push_str("NaN");
            } else {
                canon_f64_class(z.re, out);
                if z.im != 0.0 {
                    out.push('|');
                    canon_f64_class(z.im, out);
                }
            }
        }
    }
}

/// canonical text of a dictionary key up to key equality (see val::canon_key)
pub fn canon_key_obj(o: &Obj, out: &mut String) {
    match o {
        Obj::Num(n) => canon_num_class(n, out),
        Obj::Seq(Seq::Vector(xs)) => {
            out.push_str("v[");
            for (i, x) in xs.iter().enumerate() {
                if i > 0 {
                    out.push(',');
                }
                canon_num_class(x, out);
            }
            out.push(']');
        }
        Obj::Seq(Seq::List(xs)) => {
            out.push('[');
            for (i, x) in xs.iter().enumerate() {
                if i > 0 {
                    out.push(',');
                }
                canon_key_obj(x, out);
            }
            out.push(']');
        }
        Obj::Seq(Seq::Dict(d, _)) => {
            let mut items: Vec<(String, String)> = Vec::new();
            for (k, v) in d.iter() {
                let mut ks = String::new();
                canon_key_obj(&key_to_obj(k.clone()), &mut ks);
                let mut vs = String::new();
                canon_key_obj(v, &mut vs);
                items.push((ks, vs));
            }
            items.sort();
            out.push('{');
            for (i, (k, v)) in items.iter().enumerate() {
                if i > 0 {
                    out.push(',');
                }
                out.push_str(k);
                out.push(':');
                out.push_str(v);
            }
            out.push('}');
        }
        other => canon_obj_into(other, out),
    }
}

pub fn canon_obj_into(o: &Obj, out: &mut String) {
    match o {
        Obj::Null => out.push('N'),
        Obj::Num(n) => canon_num(n, out),
        Obj::Seq(Seq::String(s)) => {
            out.push('s');
            out.push_str(&format!("{:?}", &**s));
        }
        Obj::Seq(Seq::Bytes(b)) => {
            out.push('b');
            out.push_str(&format!("{:?}", &**b));
        }
        Obj::Seq(Seq::Vector(xs)) => {
            out.push_str("v[");
            for (i, x) in xs.iter().enumerate() {
                if i > 0 {
                    out.push(',');
                }
                canon_num(x, out);
            }
            out.push(']');
        }
        Obj::Seq(Seq::List(xs)) => {
            out.push('[');
            for (i, x) in xs.iter().enumerate() {
                if i > 0 {
                    out.push(',');
                }
                canon_obj_into(x, out);
            }
            out.push(']');
        }
        Obj::Seq(Seq::Dict(d, def)) => {
            let mut items: Vec<(String, String)> = Vec::new();
            for (k, v) in d.iter() {
                let mut ks = String::new();
                canon_key_obj(&key_to_obj(k.clone()), &mut ks);
                let mut vs = String::new();
                canon_obj_into(v, &mut vs);
                items.push((ks, vs));
            }
            items.sort();
            out.push('{');
            for (i, (k, v)) in items.iter().enumerate() {
                if i > 0 {
                    out.push(',');
                }
                out.push_str(k);
                out.push(':');
                out.push_str(v);
            }
            if let Some(dv) = def {
                out.push_str("|d=");
                canon_obj_into(dv, out);
            }
            out.push('}');
        }
        Obj::Seq(Seq::Stream(s)) => {
            // passive materialisation through clone_box: does not advance the original
            let mut it = s.clone_box();
            out.push_str("S[");
            let mut n = 0;
            loop {
                if n == STREAM_BOUND {
                    if it.next().is_some() {
                        out.push_str(",...");
                    }
                    break;
                }
                match it.next() {
                    None => break,
                    Some(Ok(x)) => {
                        if n > 0 {
                            out.push(',');
                        }
                        canon_obj_into(&x, out);
                    }
                    Some(Err(_)) => {
                        if n > 0 {
                            out.push(',');
                        }
                        out.push_str("!err");
                        break;
                    }
                }
                n += 1;
            }
            out.push(']');
        }
        Obj::Func(Func::Type(_), _) => out.push('F'),
        Obj::Func(..) => out.push('F'),
        Obj::Instance(s, fields) => {
            out.push('I');
            out.push_str(&s.name);
            out.push('(');
            for (i, x) in fields.iter().enumerate() {
                if i > 0 {
                    out.push(',');
                }
                canon_obj_into(x, out);
            }
            out.push(')');
        }
    }
}

pub fn canon_obj(o: &Obj) -> String {
    let mut s = String::new();
    canon_obj_into(o, &mut s);
    s
}

// ---------------------------------------------------------------------------------------------
// Obj -> model value (used only to adopt variables a faulted statement was allowed to change)

use crate::val::{Dict, V};
use num::rational::BigRational;

fn num_to_v(n: &NNum) -> V {
    match n {
        NNum::Int(i) => V::Int(i.to_bigint().into_owned()),
        NNum::Rational(r) => V::Rat(BigRational::new(r.numer().clone(), r.denom().clone())),
        NNum::Float(f) => V::Float(*f),
        NNum::Complex(z) => V::Cx(z.re, z.im),
    }
}

pub fn obj_to_v(o: &Obj, struct_names: &[String]) -> Option<V> {
    Some(match o {
        Obj::Null => V::Null,
        Obj::Num(n) => num_to_v(n),
        Obj::Seq(Seq::String(s)) => V::Str((**s).clone()),
        Obj::Seq(Seq::Bytes(b)) => V::Bytes((**b).clone()),
        Obj::Seq(Seq::Vector(xs)) => V::Vector(xs.iter().map(num_to_v).collect()),
        Obj::Seq(Seq::List(xs)) => {
            let mut out = Vec::new();
            for x in xs.iter() {
                out.push(obj_to_v(x, struct_names)?);
            }
            V::List(out)
        }
        Obj::Seq(Seq::Dict(d, def)) => {
            // entries sorted by canonical key text so that the adopted value is deterministic
            let mut items: Vec<(String, V, V)> = Vec::new();
            for (k, v) in d.iter() {
                let ko = key_to_obj(k.clone());
                items.push((canon_obj(&ko), obj_to_v(&ko, struct_names)?, obj_to_v(v, struct_names)?));
            }
            items.sort_by(|a, b| a.0.cmp(&b.0));
            V::Dict(Dict {
                amb: false,
                entries: items.into_iter().map(|(_, k, v)| (k, v)).collect(),
                default: match def {
                    Some(dv) => Some(Box::new(obj_to_v(dv, struct_names)?)),
                    None => None,
                },
            })
        }
        Obj::Seq(Seq::Stream(_)) => return None,
        Obj::Func(..) => return None,
        Obj::Instance(s, fields) => {
            let sid = struct_names.iter().position(|n| n == &*s.name)?;
            let mut out = Vec::new();
            for x in fields.iter() {
                out.push(obj_to_v(x, struct_names)?);
            }
            V::Inst(sid, out)
        }
    })
}
