// Harness side of the existing seams: the output sink and input source handed to `TopEnv`, and
// the counting allocator. All fault behaviour is a pure function of the configured plan and of
// call counters -- no clock, no OS randomness.

use noulith::WriteMaybeExtractable;
use std::alloc::{GlobalAlloc, Layout, System};
use std::cell::Cell;
use std::io::{self, BufRead, Read, Write};
use std::sync::{Arc, Mutex};

#[derive(Default, Debug, Clone)]
pub struct WriterStats {
    pub write_calls: u64,
    pub short_writes: u64,
    pub eintr: u64,
    pub refused: u64,
    pub flush_calls: u64,
    pub flush_faults: u64,
}

#[derive(Debug)]
pub struct WriterState {
    pub accepted: Vec<u8>,
    /// bytes the sink will still accept (None = unlimited)
    pub budget: Option<usize>,
    /// when refusing: true = Ok(0) (write_all turns it into WriteZero), false = Err(...)
    pub refuse_with_zero: bool,
    /// short writes: accept a seed-derived 1..len prefix per call
    pub short: bool,
    /// every k-th call is interrupted first (0 = never)
    pub eintr_every: u32,
    pub flush_fails: bool,
    pub seed: u64,
    pub stats: WriterStats,
}

#[derive(Clone)]
pub struct SimWriter(pub Arc<Mutex<WriterState>>);

impl SimWriter {
    pub fn new(seed: u64) -> SimWriter {
        SimWriter(Arc::new(Mutex::new(WriterState {
            accepted: Vec::new(),
            budget: None,
            refuse_with_zero: false,
            short: false,
            eintr_every: 0,
            flush_fails: false,
            seed,
            stats: WriterStats::default(),
        })))
    }
}

fn mix(mut z: u64) -> u64 {
    z = z.wrapping_add(0x9e37_79b9_7f4a_7c15);
    z = (z ^ (z >> 30)).wrapping_mul(0xbf58_476d_1ce4_e5b9);
    z = (z ^ (z >> 27)).wrapping_mul(0x94d0_49bb_1331_11eb);
    z ^ (z >> 31)
}

impl Write for SimWriter {
    fn write(&mut self, buf: &[u8]) -> io::Result<usize> {
        let mut st = self.0.lock().unwrap();
        st.stats.write_calls += 1;
        if buf.is_empty() {
            return Ok(0);
        }
        if st.eintr_every != 0 && st.stats.write_calls % (st.eintr_every as u64) == 0 {
            st.stats.eintr += 1;
            return Err(io::Error::new(io::ErrorKind::Interrupted, "sim: EINTR"));
        }
        let mut n = buf.len();
        if let Some(b) = st.budget {
            if b == 0 {
                st.stats.refused += 1;
                return if st.refuse_with_zero {
                    Ok(0)
                } else {
                    Err(io::Error::new(io::ErrorKind::Other, "sim: no space left on device"))
                };
            }
            n = n.min(b);
        }
        if st.short && n > 1 {
            let k = 1 + (mix(st.seed ^ st.stats.write_calls) % (n as u64)) as usize;
            if k < n {
                st.stats.short_writes += 1;
            }
            n = k;
        }
        st.accepted.extend_from_slice(&buf[..n]);
        if let Some(b) = st.budget {
            st.budget = Some(b - n);
        }
        Ok(n)
    }
    fn flush(&mut self) -> io::Result<()> {
        let mut st = self.0.lock().unwrap();
        st.stats.flush_calls += 1;
        if st.flush_fails {
            st.stats.flush_faults += 1;
            Err(io::Error::new(io::ErrorKind::BrokenPipe, "sim: flush failed"))
        } else {
            Ok(())
        }
    }
}
impl WriteMaybeExtractable for SimWriter {}

/// Input source: a fixed byte script, optionally delivered one byte at a time.
pub struct SimReader {
    pub data: Vec<u8>,
    pub pos: usize,
    pub one_byte: bool,
}
impl Read for SimReader {
    fn read(&mut self, buf: &mut [u8]) -> io::Result<usize> {
        let avail = self.fill_buf()?;
        let n = avail.len().min(buf.len());
        buf[..n].copy_from_slice(&avail[..n]);
        self.consume(n);
        Ok(n)
    }
}
impl BufRead for SimReader {
    fn fill_buf(&mut self) -> io::Result<&[u8]> {
        let end = if self.one_byte {
            (self.pos + 1).min(self.data.len())
        } else {
            self.data.len()
        };
        Ok(&self.data[self.pos..end])
    }
    fn consume(&mut self, amt: usize) {
        self.pos = (self.pos + amt).min(self.data.len());
    }
}

// ---------------------------------------------------------------------------------------------
// counting allocator (S5). Thread-local counters; the harness switches counting on only around the
// evaluation it measures.

thread_local! {
    static COUNTING: Cell<bool> = const { Cell::new(false) };
    static BYTES: Cell<u64> = const { Cell::new(0) };
    static ALLOCS: Cell<u64> = const { Cell::new(0) };
}

pub struct CountingAlloc;

unsafe impl GlobalAlloc for CountingAlloc {
    unsafe fn alloc(&self, layout: Layout) -> *mut u8 {
        let _ = COUNTING.try_with(|c| {
            if c.get() {
                let _ = BYTES.try_with(|b| b.set(b.get() + layout.size() as u64));
                let _ = ALLOCS.try_with(|a| a.set(a.get() + 1));
            }
        });
        System.alloc(layout)
    }
    unsafe fn dealloc(&self, ptr: *mut u8, layout: Layout) {
        System.dealloc(ptr, layout)
    }
    unsafe fn realloc(&self, ptr: *mut u8, layout: Layout, new_size: usize) -> *mut u8 {
        let _ = COUNTING.try_with(|c| {
            if c.get() {
                // count the full new size: a growing realloc may move the whole block
                let _ = BYTES.try_with(|b| b.set(b.get() + new_size as u64));
                let _ = ALLOCS.try_with(|a| a.set(a.get() + 1));
            }
        });
        System.realloc(ptr, layout, new_size)
    }
}

pub fn alloc_counting(on: bool) {
    COUNTING.with(|c| c.set(on));
}
pub fn alloc_reset() {
    BYTES.with(|b| b.set(0));
    ALLOCS.with(|a| a.set(0));
}
pub fn alloc_bytes() -> u64 {
    BYTES.with(|b| b.get())
}
pub fn alloc_count() -> u64 {
    ALLOCS.with(|a| a.get())
}
