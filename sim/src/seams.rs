// Harness side of the existing seams: the output sink and input source handed to `TopEnv`, and
// the counting allocator. All fault behaviour is a pure function of the configured plan and of
// call counters -- no clock, no OS randomness.

use noulith::WriteMaybeExtractable;
use std::alloc::{GlobalAlloc, Layout, System};
use std::cell::Cell;
use std::io::{self, BufRead, Read, Write};
use std::sync::{Arc, Mutex};

#[derive(Default, Debug, Clone)]
pub struct WriterStats {
    pub write_calls: u64,
    pub short_writes: u64,
    pub eintr: u64,
    pub refused: u64,
    pub flush_calls: u64,
    pub flush_faults: u64,
}

#[derive(Debug)]
pub struct WriterState {
    pub accepted: Vec<u8>,
    /// bytes the sink will still accept (None = unlimited)
    pub budget: Option<usize>,
    /// when refusing: true = Ok(0) (write_all turns it into WriteZero), false = Err(...)
    pub refuse_with_zero: bool,
    /// short writes: accept a seed-derived 1..len prefix per call
    pub short: bool,
    /// every k-th call is interrupted first (0 = never)
    pub eintr_every: u32,
    pub flush_fails: bool,
    pub seed: u64,
    pub stats: WriterStats,
}

#[derive(Clone)]
pub struct SimWriter(pub Arc<Mutex<WriterState>>);

impl SimWriter {
    pub fn new(seed: u64) -> SimWriter {
        SimWriter(Arc::new(Mutex::new(WriterState {
            accepted: Vec::new(),
            budget: None,
            refuse_with_zero: false,
            short: false,
            eintr_every: 0,
            flush_fails: false,
            seed,
            stats: WriterStats::default(),
        })))
    }
}

fn mix(mut z: u64) -> u64 {
    z = z.wrapping_add(0x9e37_79b9_7f4a_7c15);
    z = (z ^ (z >> 30)).wrapping_mul(0xbf58_476d_1ce4_e5b9);
    z = (z ^ (z >> 27)).wrapping_mul(0x94d0_49bb_1331_11eb);
    z ^ (z >> 31)
}

thread_local! {
    /// set while the harness materialises lazy values to observe them: whatever their callbacks
    /// print then is discarded, so observation never changes the recorded output
    static OBSERVING: Cell<bool> = const { Cell::new(false) };
}
pub fn set_observing(on: bool) {
    OBSERVING.with(|o| o.set(on));
}

impl Write for SimWriter {
    fn write(&mut self, buf: &[u8]) -> io::Result<usize> {
        if OBSERVING.with(|o| o.get()) {
            return Ok(buf.len());
        }
        let mut st = self.0.lock().unwrap();
        st.stats.write_calls += 1;
        if buf.is_empty() {
            return Ok(0);
        }
        if st.eintr_every != 0 && st.stats.write_calls % (st.eintr_every as u64) == 0 {
            st.stats.eintr += 1;
            return Err(io::Error::new(io::ErrorKind::Interrupted, "sim: EINTR"));
        }
        let mut n = buf.len();
        if let Some(b) = st.budget {
            if b == 0 {
                st.stats.refused += 1;
                return if st.refuse_with_zero {
                    Ok(0)
                } else {
                    Err(io::Error::new(io::ErrorKind::Other, "sim: no space left on device"))
                };
            }
            n = n.min(b);
        }
        if st.short && n > 1 {
            let k = 1 + (mix(st.seed ^ st.stats.write_calls) % (n as u64)) as usize;
            if k < n {
                st.stats.short_writes += 1;
            }
            n = k;
        }
        st.accepted.extend_from_slice(&buf[..n]);
        if let Some(b) = st.budget {
            st.budget = Some(b - n);
        }
        Ok(n)
    }
    fn flush(&mut self) -> io::Result<()> {
        let mut st = self.0.lock().unwrap();
        st.stats.flush_calls += 1;
        if st.flush_fails {
            st.stats.flush_faults += 1;
            Err(io::Error::new(io::ErrorKind::BrokenPipe, "sim: flush failed"))
        } else {
            Ok(())
        }
    }
}
impl WriteMaybeExtractable for SimWriter {}

/// Input source (seam S3): a fixed byte script with a fault plan. All behaviour is a function of
/// the plan and of the call counter.
#[derive(Debug, Default, Clone)]
pub struct ReaderStats {
    pub fill_calls: u64,
    pub eintr: u64,
    pub errors: u64,
    pub eof_seen: u64,
}

#[derive(Debug, Default)]
pub struct ReaderState {
    pub data: Vec<u8>,
    pub pos: usize,
    /// deliver at most one byte per `fill_buf`
    pub one_byte: bool,
    /// every k-th `fill_buf` call is interrupted first (0 = never)
    pub eintr_every: u32,
    /// one-shot read error, delivered when a read is attempted at exactly this offset
    pub err_at: Option<usize>,
    /// after end-of-input has been reported once, start again from the beginning (a terminal after
    /// Ctrl-D); used by the builtin sweep so that every call sees data
    pub rewind: bool,
    pub at_eof: bool,
    pub stats: ReaderStats,
}

#[derive(Clone)]
pub struct SimReader(pub Arc<Mutex<ReaderState>>);

impl SimReader {
    pub fn new(data: Vec<u8>) -> SimReader {
        SimReader(Arc::new(Mutex::new(ReaderState {
            data,
            ..ReaderState::default()
        })))
    }
    /// (start, end) of the bytes the next read may see, or the fault to deliver
    fn window(&self) -> io::Result<(usize, usize)> {
        let mut st = self.0.lock().unwrap();
        st.stats.fill_calls += 1;
        if st.eintr_every != 0 && st.stats.fill_calls % (st.eintr_every as u64) == 0 {
            st.stats.eintr += 1;
            return Err(io::Error::new(io::ErrorKind::Interrupted, "sim: EINTR"));
        }
        if st.err_at == Some(st.pos) {
            st.err_at = None;
            st.stats.errors += 1;
            return Err(io::Error::new(io::ErrorKind::Other, "sim: input/output error"));
        }
        if st.at_eof && st.rewind {
            st.at_eof = false;
            st.pos = 0;
        }
        let mut end = st.data.len();
        if let Some(k) = st.err_at {
            if k > st.pos {
                end = end.min(k);
            }
        }
        if st.one_byte {
            end = end.min(st.pos + 1);
        }
        if end == st.pos {
            st.stats.eof_seen += 1;
            st.at_eof = true;
        }
        Ok((st.pos, end))
    }
}

impl Read for SimReader {
    fn read(&mut self, buf: &mut [u8]) -> io::Result<usize> {
        if buf.is_empty() {
            return Ok(0);
        }
        let (a, b) = self.window()?;
        let n = (b - a).min(buf.len());
        let mut st = self.0.lock().unwrap();
        buf[..n].copy_from_slice(&st.data[a..a + n]);
        st.pos = a + n;
        Ok(n)
    }
}

/// `BufRead::fill_buf` has to hand out a slice that outlives the lock: the window is copied into a
/// buffer owned by the handle.
pub struct SimBufReader {
    pub inner: SimReader,
    buf: Vec<u8>,
}
impl SimBufReader {
    pub fn new(inner: SimReader) -> SimBufReader {
        SimBufReader { inner, buf: Vec::new() }
    }
}
impl Read for SimBufReader {
    fn read(&mut self, buf: &mut [u8]) -> io::Result<usize> {
        self.inner.read(buf)
    }
}
impl BufRead for SimBufReader {
    fn fill_buf(&mut self) -> io::Result<&[u8]> {
        let (a, b) = self.inner.window()?;
        let st = self.inner.0.lock().unwrap();
        self.buf.clear();
        self.buf.extend_from_slice(&st.data[a..b]);
        Ok(&self.buf)
    }
    fn consume(&mut self, amt: usize) {
        let mut st = self.inner.0.lock().unwrap();
        st.pos = (st.pos + amt).min(st.data.len());
    }
}

// ---------------------------------------------------------------------------------------------
// counting allocator (S5). Thread-local counters; the harness switches counting on only around the
// evaluation it measures.

thread_local! {
    static COUNTING: Cell<bool> = const { Cell::new(false) };
    static BYTES: Cell<u64> = const { Cell::new(0) };
    static ALLOCS: Cell<u64> = const { Cell::new(0) };
}

pub struct CountingAlloc;

unsafe impl GlobalAlloc for CountingAlloc {
    unsafe fn alloc(&self, layout: Layout) -> *mut u8 {
        let _ = COUNTING.try_with(|c| {
            if c.get() {
                let _ = BYTES.try_with(|b| b.set(b.get() + layout.size() as u64));
                let _ = ALLOCS.try_with(|a| a.set(a.get() + 1));
            }
        });
        System.alloc(layout)
    }
    unsafe fn dealloc(&self, ptr: *mut u8, layout: Layout) {
        System.dealloc(ptr, layout)
    }
    unsafe fn realloc(&self, ptr: *mut u8, layout: Layout, new_size: usize) -> *mut u8 {
        let _ = COUNTING.try_with(|c| {
            if c.get() {
                // count the full new size: a growing realloc may move the whole block
                let _ = BYTES.try_with(|b| b.set(b.get() + new_size as u64));
                let _ = ALLOCS.try_with(|a| a.set(a.get() + 1));
            }
        });
        System.realloc(ptr, layout, new_size)
    }
}

pub fn alloc_counting(on: bool) {
    COUNTING.with(|c| c.set(on));
}
pub fn alloc_reset() {
    BYTES.with(|b| b.set(0));
    ALLOCS.with(|a| a.set(0));
}
pub fn alloc_bytes() -> u64 {
    BYTES.with(|b| b.get())
}
pub fn alloc_count() -> u64 {
    ALLOCS.with(|a| a.get())
}
