#!/usr/bin/env python3
# Regenerates MANIFEST.json from the table below (single source of truth for what is claimed).
import json, subprocess
NA = {
 "C03": "pure function of (chain text, operator table): no schedule, fault, stream or shared-holder history enters; deterministic simulation has nothing to own here (the closure/frozen-code slice is exercised inside C17's check)",
 "C04": "agreement of application forms is a pure function of (callable, arguments, form); no interleaving, fault or environment choice is involved",
 "C06": "integer arithmetic results are pure functions of the operands; no history, seam or fault dimension",
 "C07": "rational/tower arithmetic is a pure function of the operands",
 "C08": "comparison, min/max and sort are pure functions of their operands (sort is deterministic and reads no seam)",
 "C10": "indexing and slicing are pure functions of (sequence, index/bounds); the write-side addressing is exercised incidentally by C01's histories",
 "C13": "the sequence library functions are pure functions of their inputs; checking ~60 functions against a reference on generated inputs is differential testing, not simulation",
 "C15": "parse reads no seam and keeps no state: totality and literal decoding are statements about one pure function of the source text",
 "C16": "codecs and conversions are pure inverse-pair laws over inputs (torn/corrupted codec inputs are used as a fault kind under C14)",
}
TECH = "deterministic simulation: seeded session histories with fault injection, refinement check against an executable reference model"
CLAIMED = {
 "C01": dict(level="exploration", text="seeded search over mutation histories x alias graphs x hasher configurations x ill-formed statements; every variable compared with a deep-copy reference model after every statement; evidence, not proof", ref="DESIGN.md section 5 (C01)", technique=TECH),
 "C02": dict(level="exploration", text="seeded workload families W(n): a setup phase builds collections of size n (list, two lists, nested rows, dict with and without default, vector, bytes, struct field holding a list), alias creation/destruction and a failing operator are placed at seed-chosen moments, then n in-place-eligible statements (index assignment, op-assignment incl. append/+=/++=/max/|../||/|./-./insert, pop/remove at the end, struct field forms) run; each family is executed at n, 2n, 4n on the real interpreter and the bytes requested from the global allocator during the mutation phase are measured through a counting allocator; the log-log slope must stay <= 1.35 (a hidden copy per statement gives ~2)", ref="DESIGN.md section 5 (C02)", technique="deterministic simulation: seeded workload histories with alias/fault events, resource observed at the allocator seam, growth-order oracle over three size scales"),
 "C05": dict(level="exploration", text="seeded sessions whose statements are generated programs over the control-flow vocabulary (sequencing, if/else, while, multi-clause for with guards/declarations/pair iteration, yield/into, break/continue with repeat counts and values, return, try/catch/throw with literal patterns, and/or/coalesce, lambdas with defaults and splats, switch, eval, print), closures that escape and are invoked later in seed-chosen order, shadowing, output-sink faults (disk full at a byte offset, short writes, EINTR); value, output bytes, raised/not-raised and the whole session state compared with an independent reference interpreter after every statement", ref="DESIGN.md section 5 (C05)", technique="deterministic simulation: seeded program histories with scheduler-chosen closure invocation and output fault injection, refinement against an executable reference interpreter"),
 "C09": dict(level="exploration", text="seeded histories of every dictionary operation the property lists over a key pool of numerically equal values of different levels and representations (also nested in lists, vectors, dicts), each run under one hasher configuration (per-instance or shared seeds; full, constant or two-bit key hash); every result and every variable compared with a finite-map-over-equality-classes model after every operation", ref="DESIGN.md section 5 (C09)", technique="deterministic simulation: seeded operation histories with the hasher behind a seam (seed and degradation chosen per run), refinement against an executable finite-map model"),
 "C11": dict(level="exploration", text="seeded histories over stream variables from every constructor with small parameters (both step signs, bounds beyond 2^63, empty bases, selection sizes 0..len+1, lazy map/filter, infinite recurrences), optionally dropped by a prefix and aliased, with a seed-chosen order of observations (len, index, slice, list, reverse, first/last, in, truthiness, unpacking, for, take/drop, map, set, passing to a function) interleaved with alias creation and destruction and failing lazy callbacks; every result compared with an immutable-lazy-list model and every stream variable re-materialised after every statement", ref="DESIGN.md section 5 (C11)", technique="deterministic simulation: seeded observation histories over shared/unshared stream cursors with failing-callback injection, refinement against an immutable lazy-list model"),
 "C12": dict(level="exploration", text="stateful clauses: seeded histories over variables declared with annotations of every builtin type, a struct type and `satisfying` types (one over container contents, so the late check of indexed assignments fires), touched by every assignment form (plain, indexed/field, operator-, every-, swap, destructuring with splats/defaults/brackets, annotated pairs, closure setters) with well- and ill-typed right-hand sides; switch with overlapping arms over literal, annotated, sequence, splat, struct, or/and and constructor-inverting patterns; patterns in lambda parameters, for clauses and catch; `x is T` asked in the session; everything compared with the reference model after every statement. The full pattern x value matrix is a pure function and is only sampled", ref="DESIGN.md section 5 (C12)", technique=TECH),
 "C14": dict(level="fault_enumeration", text="every global builtin found in the live Env x every tuple of 0..2 arguments from a 60-value pool (thorough: the whole grid; quick: arity 0/1 completely plus seeded samples of arity 2/3), half of the calls inside try/catch, pool values held in session variables, liveness probe in the same session; plus the other profiles' generated histories with ill-formed statements; oracle: value or catchable error, never a panic, untouched variables keep their values", ref="DESIGN.md section 5 (C14)", technique="deterministic simulation: fault enumeration over builtin x argument grid inside persistent sessions, crash capture (catch_unwind), recovery invariant checked after every fault"),
 "C17": dict(level="exploration", text="seeded sessions that define, for generated closed lambdas over the control-flow vocabulary (loops, switch, try, nested lambdas with defaults, operator chains, local declarations), a plain twin L and F := freeze L, then interleave calls of both twins on the same arguments with reassignments of the outer variables they mention (values, list, helper function, user operator, `swap +, *` which also moves precedences); value, output and raised/not-raised of every call compared with a reference model in which freeze = snapshot of the free variables by the evaluator's own scope rules; negative cases (unbound free variable, assignment to an outer variable) must fail at freeze time", ref="DESIGN.md section 5 (C17)", technique="deterministic simulation: seeded schedules of reassignments vs calls of frozen/unfrozen twins with output fault injection, refinement against an executable reference model"),
}
PENDING = []
import sys
pending = [p for p in PENDING if p not in CLAIMED]
hooks = subprocess.check_output(["git","-C","/repo","log","--format=%h %s"]).decode().splitlines()
hook_commits = [l.split()[0] for l in hooks if l.split(' ',1)[1].startswith("verif hook")]
m = {
 "version": 1,
 "setup_cmd": "cd /verif/sim && CARGO_NET_OFFLINE=true cargo build --release --offline",
 "hooks": {
   "guard": "--cfg betaveros_noulith_verif",
   "enable": "RUSTFLAGS=--cfg betaveros_noulith_verif (set in /verif/sim/.cargo/config.toml; the simulator depends on /repo by path, so every check rebuilds the working tree)",
   "baseline_off_cmd": "cd /repo && cargo nextest run --workspace --no-fail-fast --tool-config-file pb:/w/lib/nextest.toml --profile pb --test-threads 8 --offline",
   "source_commits": hook_commits,
   "add_only": True
 },
 "engines": [
   {"name": "nsim", "path": "/verif/sim", "serves_properties": sorted(CLAIMED), "kind_free_text": "deterministic session simulator: seeded generator of NL-core scripts + fault plans, real parse/evaluate on a persistent Env behind seams (output sink, input, hasher, evaluation budget, allocator), independent reference model checked after every statement, delta-debugging minimiser, replay files"}
 ],
 "checks": [
   {
     "property_id": p,
     "quick_cmd": "./check %s --tier quick" % p,
     "thorough_cmd": "./check %s --tier thorough" % p,
     "evidence_file": "/verif/evidence/%s.json" % p,
     "replay_cmd_template": "./check %s --replay {path}" % p,
     "engine": "nsim",
     "level_claimed": {"category": c["level"], "text": c["text"], "design_ref": c["ref"]},
     "level_note": "trusts the reference model for the generated fragment, the observation function (sim/src/obs.rs) and the known-findings file; hooks assumed behaviour-preserving; sampling gives evidence, not proof",
     "technique": c["technique"],
   } for p, c in sorted(CLAIMED.items())
 ],
 "not_applicable": [{"property_id": k, "reason": v} for k, v in NA.items()] +
   [{"property_id": p, "reason": "claimed in DESIGN.md; its check is still under construction in this round (moves to checks[] once it runs green)"} for p in pending],
 "notes": "One engine (nsim). See DESIGN.md. known_findings.json lists recorded and fixed defects."
}
json.dump(m, open('/verif/MANIFEST.json','w'), indent=1)
print("claimed", sorted(CLAIMED), "pending", pending)
