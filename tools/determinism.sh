#!/bin/bash
# Determinism proof (DESIGN 4.7): every profile, RUNS seeds, executed (a) in one process with 1
# worker, (b) in one process with 16 workers, (c) sharded over 32 processes with 4 workers each;
# the per-run event logs (statement texts, outcomes, state hashes, end) must be byte-identical.
# exit 0 = identical, 2 = divergence (a harness error, never a violation).
RUNS=${1:-20000}
SEED=${2:-424242}
BIN=/verif/sim/target/release/nsim
OUT=${3:-/tmp/nsim-determinism}
rm -rf $OUT; mkdir -p $OUT
rc=0
for P in ${PROFILES:-alias dict stream flow typed freeze io sweep}; do
  R=$RUNS; [ $P = sweep ] && R=$((RUNS/10))
  mkdir -p $OUT/$P/a $OUT/$P/b $OUT/$P/c
  $BIN batch --profile $P --seed $SEED --runs $R --threads 1  --show 0 --logdir $OUT/$P/a >/dev/null 2>&1
  $BIN batch --profile $P --seed $SEED --runs $R --threads 16 --show 0 --logdir $OUT/$P/b >/dev/null 2>&1
  for k in $(seq 0 31); do
    $BIN batch --profile $P --seed $SEED --runs $R --threads 4 --only-mod $k/32 --show 0 --logdir $OUT/$P/c >/dev/null 2>&1 &
    if (( (k+1) % 8 == 0 )); then wait; fi
  done
  wait
  na=$(ls $OUT/$P/a | wc -l); nb=$(ls $OUT/$P/b | wc -l); nc=$(ls $OUT/$P/c | wc -l)
  if diff -rq $OUT/$P/a $OUT/$P/b >/dev/null && diff -rq $OUT/$P/a $OUT/$P/c >/dev/null && [ $na -eq $R ] && [ $nc -eq $R ]; then
    echo "$P: $na logs identical across 1 worker / 16 workers / 32 processes x 4 workers"
  else
    echo "$P: DIVERGENCE (a=$na b=$nb c=$nc)"; diff -rq $OUT/$P/a $OUT/$P/b | head -3; diff -rq $OUT/$P/a $OUT/$P/c | head -3; rc=2
  fi
done
# allocation profile: the measured byte counts themselves must repeat
for t in 1 16; do $BIN batch --profile alloc --seed $SEED --runs 2500 --threads $t --show 0 --logdir $OUT/alloc$t >/dev/null 2>&1 & mkdir -p $OUT/alloc$t; done; wait
if diff -rq $OUT/alloc1 $OUT/alloc16 >/dev/null; then echo "alloc: 2500 families, byte counts identical across 1 / 16 workers"; else echo "alloc: DIVERGENCE"; diff -rq $OUT/alloc1 $OUT/alloc16 | head -3; rc=2; fi
[ $rc -eq 0 ] && rm -rf $OUT
exit $rc
