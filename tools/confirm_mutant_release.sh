#!/bin/bash
# confirm_mutant_release.sh <worktree> <outdir> : like confirm_mutant.sh, for demonstrations that
# measure running time and therefore need a release build (C02).
WT=$1; OUT=$2
cd $WT || exit 2
git checkout -q -- . ; git apply $OUT/patch.diff || { echo "APPLY-FAILED"; exit 2; }
export CARGO_TARGET_DIR=$WT/target
cargo build --release --offline -q 2>/dev/null || { echo "BUILD-FAILED"; git checkout -q -- .; exit 2; }
( cd $OUT && bash ./demo.sh $WT/target/release/noulith >/dev/null 2>&1 ); with=$?
tests=$(cargo test --offline --test test -- --skip demos 2>&1 | grep "^test result" | head -1)
git checkout -q -- .
cargo build --release --offline -q 2>/dev/null
( cd $OUT && bash ./demo.sh $WT/target/release/noulith >/dev/null 2>&1 ); without=$?
echo "demo_with_patch_exit=$with demo_without_patch_exit=$without tests_with_patch: $tests"
