#!/bin/bash
# try_mutant.sh <patch.diff> <property> [more properties...]
# applies the patch to /repo, runs the quick checks, and always restores /repo.
PATCH=$1; shift
cd /verif
git -C /repo apply "$PATCH" || { echo "APPLY-FAILED"; exit 2; }
for P in "$@"; do
  ./check $P --tier quick --evidence /tmp/mutant-evidence-$P.json --replays /tmp/mutant-replays > /tmp/mutant-$P.log 2>&1
  rc=$?
  echo "== $P exit=$rc : $(grep -c '^VIOLATION' /tmp/mutant-$P.log) violation line(s); $(tail -1 /tmp/mutant-$P.log)"
  grep -B12 '^VIOLATION' /tmp/mutant-$P.log | grep -v "^---\|^VERIF" | head -24
done
git -C /repo checkout -- .
# rebuild the simulator against the restored tree
(cd /verif/sim && cargo build --release --offline 2>/dev/null)
