#!/bin/bash
# regress_seeded.sh : every seeded change must still be caught by its property's quick check, every
# negative control must still pass all checks. Applies each patch to /repo in turn and restores it.
cd /verif
for d in seeded/*/; do
  id=$(basename $d)
  prop=$(python3 -c "import json;m=json.load(open('$d/meta.json'));print(m.get('breaks_property') or 'CONTROL')")
  [ "$id" = "c01-freeze-accepts-indexed-outer-write" ] && prop=C17
  git -C /repo apply /verif/$d/patch.diff || { echo "$id APPLY-FAILED"; continue; }
  if [ "$prop" = "CONTROL" ] && [ -n "$MUTANTS_ONLY" ]; then git -C /repo checkout -- .; continue; fi
  if [ "$prop" = "CONTROL" ]; then
    bad=0
    for P in C01 C02 C05 C09 C11 C12 C14 C17; do
      ./check $P --tier quick --evidence /tmp/rg-e.json --replays /tmp/rg-replays > /tmp/rg.log 2>&1 || bad=$((bad+1))
    done
    echo "$id CONTROL failing_checks=$bad"
  else
    ./check $prop --tier quick --evidence /tmp/rg-e.json --replays /tmp/rg-replays > /tmp/rg.log 2>&1
    rc=$?
    echo "$id $prop exit=$rc violations=$(grep -c '^VIOLATION' /tmp/rg.log)"
  fi
  git -C /repo checkout -- .
done
(cd /verif/sim && cargo build --release --offline 2>/dev/null)
