#!/bin/bash
# Finds the builtins that cannot be given an infinite stream (they must consume it): each builtin is
# run alone, in a child process with a memory and a time limit, on every argument tuple (arity<=2)
# that contains an infinite stream. Output: sim/src/inf_unsafe.in (a Rust array literal).
cd "$(dirname "$0")/../sim" || exit 2
BIN=./target/release/nsim
NB=$($BIN list-builtins | grep -vc parts_per_builtin)
PARTS=$($BIN list-builtins | awk '/parts_per_builtin/{print $2}')
RUNS=$((NB * PARTS))
probe_one() {
  b=$1
  ( ulimit -v 3000000; timeout 40 $BIN batch --profile sweep-inf-probe --seed 1 --runs $RUNS --only-mod $b/$NB --threads 1 --show 0 >/dev/null 2>&1 )
  rc=$?
  if [ $rc -ne 0 ] && [ $rc -ne 1 ]; then echo "$b $rc"; fi
}
export -f probe_one; export BIN NB RUNS
seq 0 $((NB-1)) | xargs -P 16 -I{} bash -c 'probe_one {}' > /tmp/inf_probe.txt
$BIN list-builtins > /tmp/inf_names.txt
python3 - <<'PY'
names={}
for l in open('/tmp/inf_names.txt'):
    p=l.rstrip('\n').split(' ',1)
    if p[0].isdigit(): names[int(p[0])]=p[1]
bad=sorted(names[int(l.split()[0])] for l in open('/tmp/inf_probe.txt') if l.strip())
def esc(s): return s.replace('\\','\\\\').replace('"','\\"')
open('src/inf_unsafe.in','w').write('[\n'+''.join('    "%s",\n'%esc(b) for b in bad)+']\n')
print(len(bad),'builtins marked unsafe for infinite streams')
PY
