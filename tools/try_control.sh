#!/bin/bash
# try_control.sh <patch.diff> : a change under which the properties are believed to hold must pass
# every quick check. Applies to /repo, runs all checks, restores /repo.
PATCH=$1
cd /verif
git -C /repo apply "$PATCH" || { echo "APPLY-FAILED"; exit 2; }
for P in C01 C02 C05 C09 C11 C12 C14 C17; do
  ./check $P --tier quick --evidence /tmp/ctl-evidence-$P.json --replays /tmp/ctl-replays > /tmp/ctl-$P.log 2>&1
  rc=$?
  echo "== $P exit=$rc : $(grep -c '^VIOLATION' /tmp/ctl-$P.log) violation line(s)"
  grep -B10 '^VIOLATION' /tmp/ctl-$P.log | grep -v "^---\|^VERIF" | head -14
done
git -C /repo checkout -- .
(cd /verif/sim && cargo build --release --offline 2>/dev/null)
