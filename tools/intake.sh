#!/bin/bash
# intake.sh <outdir> <worktree> <PROP|CONTROL> : confirm a sub-agent's change in its scratch worktree
# (builds, tests as before, demo 1 with / 0 without), then run the quick check(s) against it in /repo.
OUT=$1; WT=$2; PROP=$3
echo "### $(python3 -c "import json;print(json.load(open('$OUT/meta.json'))['id'])") ($OUT)"
if [ "$PROP" = "C02" ]; then bash /verif/tools/confirm_mutant_release.sh $WT $OUT; else bash /verif/tools/confirm_mutant.sh $WT $OUT; fi
if [ "$PROP" = "CONTROL" ]; then bash /verif/tools/try_control.sh $OUT/patch.diff; else bash /verif/tools/try_mutant.sh $OUT/patch.diff $PROP; fi
