#!/bin/bash
# batch_try.sh <PROP|CONTROL> <outdir>... : for each delivered change: apply to /repo, run the quick
# check(s), restore /repo. The simulator is rebuilt against the restored tree once at the end.
cd /verif
for OUT in "$@"; do
  id=$(python3 -c "import json;print(json.load(open('$OUT/meta.json'))['id'])")
  prop=$(python3 -c "import json;print(json.load(open('$OUT/meta.json')).get('breaks_property') or 'CONTROL')")
  git -C /repo apply "$OUT/patch.diff" || { echo "## $id APPLY-FAILED"; continue; }
  if [ "$prop" = "CONTROL" ]; then PS="C01 C02 C05 C09 C11 C12 C14 C17"; else PS="$prop"; fi
  for P in $PS; do
    ./check $P --tier quick --evidence /tmp/me/bt-e.json --replays /tmp/me/bt-replays > /tmp/me/bt-$id-$P.log 2>&1
    rc=$?
    echo "## $id $P exit=$rc violations=$(grep -c '^VIOLATION' /tmp/me/bt-$id-$P.log) $(grep '^note: foreign' /tmp/me/bt-$id-$P.log | head -2 | cut -c1-150)"
  done
  git -C /repo checkout -- .
done
(cd /verif/sim && cargo build --release --offline 2>/dev/null)
echo BATCH-DONE
