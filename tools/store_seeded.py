#!/usr/bin/env python3
# store_seeded.py <outdir> <detection text> : copy a confirmed sub-agent change into /verif/seeded/<id>/
import json, os, shutil, sys
out, detection = sys.argv[1], sys.argv[2]
m = json.load(open(os.path.join(out, 'meta.json')))
dst = os.path.join('/verif/seeded', m['id'])
os.makedirs(dst, exist_ok=True)
for f in os.listdir(out):
    if f in ('patch.diff', 'demo.noul', 'demo.sh', 'notes.txt') or f.startswith('demo'):
        shutil.copy(os.path.join(out, f), dst)
control = not m.get('breaks_property')
meta = {
    'id': m['id'],
    'breaks_property': m.get('breaks_property'),
    'summary': m.get('summary'),
    'needs_to_manifest': m.get('needs_to_manifest') or m.get('why_properties_hold'),
    'confirmed': 'applied in a scratch worktree of /repo HEAD: builds; `cargo test --offline --test test -- --skip demos` gives 48 passed; demo.sh exit codes checked with and without the patch (tools/confirm_mutant.sh)',
    'checked_with': 'all eight quick checks with the patch applied (tools/try_control.sh / lane copy)' if control else 'tools/batch_try.sh (property quick check with the patch applied to /repo)',
    'detection': detection,
}
if control:
    meta['kind'] = 'negative control: a realistic change under which the properties still hold'
    meta['neighbourhood'] = m.get('neighbourhood')
json.dump(meta, open(os.path.join(dst, 'meta.json'), 'w'), indent=1, ensure_ascii=False)
print('stored', dst)
